"""Fixture harness: every rule must fire on its bad_<RULE>_* functions and stay silent on all others.

A fixture is a small C file (or a pair playing cJSON.c / cJSON_Utils.c) exported through the same plugin
and judged by the same rule functions as /repo.  Naming convention:
  bad_<RULE>_<anything>   at least one failing obligation of rule <RULE> must name this function
  any other function      no failing obligation at all
"""
import os
import re

from .. import extract
from ..facts import AnalysisBroken
from ..report import Results

FX = os.path.join(extract.VERIF, 'fixtures')


def _spec(module):
    if module == 'eff':
        from . import eff
        return [{
            'units': {'cJSON.c': 'eff_main.c', 'cJSON_Utils.c': 'eff_utils.c'},
            'rules': [eff.eff1, eff.eff2, eff.eff3, eff.eff4, eff.eff5],
        }]
    if module == 'utils':
        from . import tab, lst, out, utilsx
        return [{
            'units': {'cJSON.c': 'core_min.c', 'cJSON_Utils.c': 'utils_bad.c'},
            'rules': [tab.tab8, tab.tab9, tab.tab10, tab.tab11, tab.tab12, lst.lst1, out.out5, out.out6, out.out7,
                      utilsx.tab18, utilsx.ord1, tab.tab20, utilsx.mrg, utilsx.esc1, utilsx.pfx1, utilsx.gen1, utilsx.gen2, utilsx.numu, utilsx.mrg5, lambda units, R: utilsx.ord2(units, R, floor=0), utilsx.idx1, lambda units, R: utilsx.fnd1(units, R, 'bad_FND1_find'), lambda units, R: utilsx.fnd1(units, R, 'good_find'), utilsx.esc2, utilsx.esc3, lambda units, R: utilsx.esc4(units, R, floor=0), utilsx.esc5, utilsx.own11, lambda units, R: utilsx.mrg6(units, R, names=('bad_MRG6_skips_empty_name', 'good_every_name')),
                      lambda units, R: utilsx.ptr1(units, R, 'bad_PTR1_resolve'), lambda units, R: utilsx.ptr1(units, R, 'good_resolve'),
                      lambda units, R: utilsx.ptr1(units, R, 'good_resolve_checked_first'),
                      lambda units, R: utilsx.dig1(units, R, unit_names=('cJSON_Utils.c',))],
        }]
    if module == 'parse':
        from . import bnd, bnd3, parse, tab
        names3 = ['bad_BND3_skip_two', 'good_skip_two', 'bad_BND3_lookahead', 'good_lookahead', 'bad_BND3_loop_steps_over',
                  'good_loop', 'h_skip', 'bad_BND3_call', 'good_call', 'bad_BND3_index', 'good_index',
                  'bad_BND3_handback', 'good_handback', 'h_place', 'bad_BND3_place_call', 'good_place_call', 'use_handback']
        return [{
            'units': {'cJSON.c': 'parse_bad.c', 'cJSON_Utils.c': 'utils_min.c'},
            'rules': [bnd.bnd_parse, parse.c10_structure, parse.bnd6, tab.tab13, parse.num2, parse.num3, parse.num5, parse.tab22,
                      lambda units, R: parse.tab22(units, R, 'bad_TAB22_signed_skip'), lambda units, R: parse.tab22(units, R, 'good_unsigned_skip'),
                      lambda units, R: parse.tab1(units, R, claim=('pv_bad', 'pv_good', 'pv_skip'))] +
                     [(lambda n_: (lambda units, R: parse.num6(units, R, n_)))(n_) for n_ in ('bad_NUM6_erange', 'good_overflow_only')] +
                     [(lambda n_: (lambda units, R: parse.ent1(units, R, n_, 'fx_value', 0)))(n_) for n_ in (
                         'bad_ENT1_blank_test', 'good_blank_test', 'bad_ENT1_refuses_digits', 'good_nothing_left')],
        }, {
            'units': {'cJSON.c': 'string_bad.c', 'cJSON_Utils.c': 'utils_min.c'},
            'rules': [lambda units, R: bnd3._run(units['cJSON.c'], names3, R, 0)],
        }]
    if module == 'tree':
        from . import tree, shape, cmpfold, numcls, parse
        return [{
            'units': {'cJSON.c': 'tree_bad.c', 'cJSON_Utils.c': 'utils_min.c'},
            'rules': [tree.tab3, tree.tab14, lambda units, R: tree.tab14(units, R, 'good_dup_clone'),
                      lambda units, R: tree.tab14(units, R, 'dup_clone_late_reset'), tree.eff6, tree.c12_structure, tree.lst4, tree.lst2, tree.lst3,
                      lambda units, R: cmpfold.cmp1(units, R, unit_names=('cJSON.c',)),
                      lambda units, R: shape.shp1(units, R, editors=[
                          ('cJSON.c', 'bad_SHP1_detach', lambda u, f: shape._cases_detach_ptr(u, f, stray_case=False), 'remove the given element'),
                          ('cJSON.c', 'good_unlink', lambda u, f: shape._cases_detach_ptr(u, f, stray_case=False), 'remove the given element')]),
                      lambda units, R: shape.shp3(units, R, names=('bad_SHP3_item_at', 'good_item_at', 'bad_SHP3_last_member', 'good_first_member')),
                      shape.shp5, lambda units, R: parse.tab1_bound(units, R, 'bad_TAB24_dup', 1), lambda units, R: parse.tab1_bound(units, R, 'good_dup_bound', 1),
                      lambda units, R: shape.shp4(units, R, 'bad_SHP4_dup_strings_only'), lambda units, R: shape.shp4(units, R, 'good_dup_every_kind'),
                      lambda units, R: numcls.num4(units, R, unit_names=('cJSON.c',), fn_name='bad_NUM4_relative'),
                      lambda units, R: numcls.num4(units, R, unit_names=('cJSON.c',), fn_name='good_relative')],
        }]
    if module == 'own':
        from . import own, parse
        return [{
            'units': {'cJSON.c': 'own_bad.c', 'cJSON_Utils.c': 'utils_min.c'},
            'rules': [lambda units, R: own.own_engine(units, R), own.own5, own.del1, own.own6, own.own7, own.own8, own.own9, lambda units, R: own.own10(units, R, floor=0),
                      lambda units, R: own.own4_dangling(units, R, unit_names=('cJSON.c',)),
                      lambda units, R: own.dbl1(units, R, unit_names=('cJSON.c',)), parse.tab17],
        }]
    if module == 'tables':
        from . import parse, codeset
        return [{
            'units': {'cJSON.c': 'tables_bad.c', 'cJSON_Utils.c': 'utils_min.c'},
            'rules': [parse.tab4, parse.tab5a, codeset.tab6, parse.tab7, parse.c02_structure, parse.c03_structure, parse.tab21] +
                     [(lambda n_: (lambda units, R: parse.tab23(units, R, n_)))(n_) for n_ in (
                         'bad_TAB23_scan_single', 'good_scan_forward', 'bad_TAB23_search_single', 'good_search_parity', 'bad_TAB23_search_inverted')] +
                     [(lambda n_: (lambda units, R: parse.out9(units, R, n_)))(n_) for n_ in (
                         'good_decode_fits', 'bad_OUT9_no_terminator', 'bad_OUT9_counts_plain', 'bad_OUT9_two_for_two')],
        }]
    if module == 'print':
        from . import outbuf, outsym, numcls
        return [{
            'units': {'cJSON.c': 'print_bad.c', 'cJSON_Utils.c': 'utils_min.c'},
            'rules': [outbuf.out1, outbuf.out4, outbuf.out8, outbuf.tab2_print, outbuf.tab5bc, outbuf.tab15, outbuf.tab16, outsym.out23, numcls.num1, outbuf.prt1],
        }]
    raise AnalysisBroken('no fixture spec for module %s' % module)


_cache = {}


def run_module(module):
    if module in _cache:
        return _cache[module]
    out = []
    for spec in _spec(module):
        units = {}
        for role, fname in spec['units'].items():
            units[role] = extract.load_fixture(os.path.join(FX, fname))
        R = Results(config='fixture')
        for rule in spec['rules']:
            try:
                rule(units, R)
            except AnalysisBroken as e:
                out.append(('%s:%s' % (module, getattr(rule, '__name__', 'rule')), False, 'raised AnalysisBroken: %s' % e))
        failing = {}
        for o in R.obs:
            if not o.ok:
                failing.setdefault(o.function, []).append(o)
        names = []
        for u in units.values():
            names.extend(f.name for f in u.function_list)
        expect = {}
        for fname in spec['units'].values():
            for line in open(os.path.join(FX, fname)):
                m = re.search(r'EXPECT-FAIL:\s*(\S+)\s+(\S+)', line)
                if m:
                    expect.setdefault(m.group(2), set()).add(m.group(1))
        for name in names:
            m = re.match(r'bad_([A-Z]+[0-9]*[a-z]?)_', name)
            fl = failing.get(name, [])
            if name in expect:
                for want in sorted(expect[name]):
                    hit = [o for o in fl if o.rule == want]
                    out.append(('%s:%s/%s' % (module, name, want), bool(hit),
                                'reported: %s' % hit[0].what if hit else 'rule %s did not fire' % want))
                other = [o for o in fl if o.rule not in expect[name]]
                out.append(('%s:%s/others' % (module, name), not other,
                            'no other rule fired' if not other else 'false alarm: %s %s -- %s' % (other[0].rule, other[0].what, other[0].detail)))
                continue
            if m:
                want = m.group(1)
                hit = [o for o in fl if o.rule.split('-')[0] == want or o.rule == want]
                out.append(('%s:%s' % (module, name), bool(hit),
                            'reported: %s' % hit[0].what if hit else 'rule %s did not fire (got %s)'
                            % (want, [o.rule for o in fl])))
            else:
                out.append(('%s:%s' % (module, name), not fl,
                            'silent' if not fl else 'false alarm: %s %s -- %s' % (fl[0].rule, fl[0].what, fl[0].detail)))
        stray = [o for o in R.obs if not o.ok and o.function not in names]
        for o in stray:
            # obligations without a function (census entries) are tolerated only when they name a bad_ object
            if 'bad_' in (o.what + o.key + o.detail):
                continue
            out.append(('%s:stray' % module, False, 'unexpected failing obligation %s %s -- %s' % (o.rule, o.what, o.detail)))
    _cache[module] = out
    return out
