"""Print-family rules (DESIGN.md section 3): OUT1 ensure def-use, OUT2 request >= written, OUT3 offset agreement,
OUT4 noalloc gate and ensure contract, TAB2 print funnel, TAB5b/c printer escape tables, TAB15 format only affects
whitespace, TAB16 locale decimal point."""
from ..facts import (AnalysisBroken, walk, strip_casts, expr_str, is_null_const, const_val, ASSIGN_OPS, CMP_OPS, callee_name,
                     indirect_field)
from ..dataflow import node_effects, access
from .common import (all_functions, assignments, is_ref, is_mem, cmp_parts, guarded_by, node_containing, region_without_edges)
from .out import parse_format, conv_max_len, conv_min_len


def _printbuffer_record(u):
    for r in u.records.values():
        names = {f['n'] for f in r['fields']}
        if {'buffer', 'length', 'offset', 'noalloc', 'format'} <= names:
            return r['name']
    raise AnalysisBroken('OUT: no record with buffer/length/offset/noalloc/format fields (printbuffer) found')


def print_family(u):
    rec = _printbuffer_record(u)
    fam = []
    for fn in u.function_list:
        if any(rec in u.ty(p['ty'])['s'] for p in fn.params) or any(rec in u.ty(d['ty'])['s'] for d in fn.locals()):
            fam.append(fn)
    return fam


def _linstr(e):
    """(const, {atom_str: coeff}) for + / - expressions."""
    e = strip_casts(e)
    v = const_val(e)
    if v is not None:
        return (v, {})
    if e.get('k') == 'bin' and e['op'] in ('+', '-'):
        a, b = _linstr(e['l']), _linstr(e['r'])
        sg = 1 if e['op'] == '+' else -1
        t = dict(a[1])
        for k2, c in b[1].items():
            t[k2] = t.get(k2, 0) + sg * c
        return (a[0] + sg * b[0], {k2: c for k2, c in t.items() if c})
    return (0, {expr_str(e): 1})


_wrapper_cache = {}


def alloc_wrappers(u):
    """Static functions whose non-NULL result is a block obtained from the allocate / reallocate hook with the size given by one
    of their parameters (a growth/shrink helper shared by ensure() and print()): name -> index of the size parameter."""
    if id(u) in _wrapper_cache:
        return _wrapper_cache[id(u)]
    out = {}
    for h in u.function_list:
        if not h.static:
            continue
        pidx = {p['d']: i for i, p in enumerate(h.params)}
        rets = [strip_casts(x['e']) for x in h.nodes() if x.get('k') == 'return' and 'e' in x and not is_null_const(x['e'])]
        if not rets:
            continue
        # what is returned: one local (with its definitions) and / or the hook call itself
        ds = {r['d'] for r in rets if r.get('k') == 'ref' and r.get('dk') == 'local'}
        if len(ds) > 1 or any(not (r.get('k') == 'call' or (r.get('k') == 'ref' and r.get('dk') == 'local')) for r in rets):
            continue
        defs = [r for r in rets if r.get('k') == 'call']
        if ds:
            d = next(iter(ds))
            defs += [a['r'] for a in assignments(h) if is_ref(a['l']) and strip_casts(a['l'])['d'] == d]
            defs += [x['init'] for x in h.locals() if x['d'] == d and 'init' in x]
        defs = [strip_casts(r) for r in defs if not is_null_const(r)]
        ks = set()
        for r in defs:
            if r.get('k') == 'call' and callee_name(r) is None and indirect_field(r) in ('allocate', 'reallocate') and r['args']:
                a = strip_casts(r['args'][-1])
                ks.add(pidx.get(a.get('d')) if a.get('k') == 'ref' else None)
            else:
                ks.add(None)
        if defs and len(ks) == 1 and None not in ks:
            out[h.name] = next(iter(ks))
    _wrapper_cache[id(u)] = out
    return out


def _is_min_function(h):
    """static T f(a, b) { return (a < b) ? a : b; } in any of its spellings"""
    if h is None or h.body is None or len(h.params) != 2:
        return False
    rets = [x for x in h.nodes() if x.get('k') == 'return' and 'e' in x]
    stmts = [x for x in h.nodes() if x.get('k') in ('if', 'while', 'for', 'do', 'switch')]
    if len(rets) != 1 or stmts or any(x.get('k') == 'call' for x in h.nodes()):
        return False
    r = strip_casts(rets[0]['e'])
    if r.get('k') != 'cond':
        return False
    c = strip_casts(r['c'])
    pd = [p['d'] for p in h.params]
    if c.get('k') != 'bin' or c['op'] not in ('<', '<=', '>', '>='):
        return False
    l, rr, t, e = (strip_casts(x) for x in (c['l'], c['r'], r['t'], r['e']))
    if not all(x.get('k') == 'ref' and x.get('d') in pd for x in (l, rr, t, e)) or l['d'] == rr['d'] or t['d'] == e['d']:
        return False
    small = t if c['op'] in ('<', '<=') else e
    return small['d'] == l['d']


def _fresh_write_ok(node, base, size, u=None):
    """A write into a block of `size` bytes allocated in this function stays inside it."""
    S = _linstr(size)
    if node.get('k') == 'call':
        cn = callee_name(node)
        if cn == 'memcpy' and len(node['args']) == 3:
            nexp = strip_casts(node['args'][2])
            if nexp.get('k') == 'call' and u is not None and _is_min_function(u.functions.get(callee_name(nexp))) and len(nexp['args']) == 2:
                if S in (_linstr(nexp['args'][0]), _linstr(nexp['args'][1])):
                    return True, 'copies %s(.., %s) bytes' % (callee_name(nexp), expr_str(size))
            if nexp.get('k') == 'cond':
                c = strip_casts(nexp['c'])
                arms = [_linstr(nexp['t']), _linstr(nexp['e'])]
                if c.get('k') == 'bin' and c['op'] in ('<', '<=') and S in arms and \
                        {expr_str(strip_casts(c['l'])), expr_str(strip_casts(c['r']))} == {expr_str(strip_casts(nexp['t'])), expr_str(strip_casts(nexp['e']))} \
                        and expr_str(strip_casts(c['l'])) == expr_str(strip_casts(nexp['t'])):
                    return True, 'copies min(.., %s) bytes' % expr_str(size)
            if _linstr(nexp) == S:
                return True, 'copies exactly the block size'
            return False, 'memcpy length %s is not bounded by the block size %s' % (expr_str(nexp)[:40], expr_str(size))
        return False, '%s into a block of %s bytes' % (cn, expr_str(size))
    acc = access(node['l']) if node.get('k') == 'bin' else None
    if acc is not None:
        idx = acc[1]
        I = (idx, {}) if isinstance(idx, int) else _linstr(idx)
        # index <= size - 1
        diff_c = S[0] - I[0]
        same = I[1] == S[1]
        if same and diff_c >= 1:
            return True, 'index %s < size %s' % (expr_str(idx) if not isinstance(idx, int) else idx, expr_str(size))
        return False, 'index not shown to be below the block size %s' % expr_str(size)
    return False, 'unrecognised write'


def wrapper_copy_bounds(u, h):
    """[(memcpy call, [candidate upper bounds of its length])] for the copies a size-taking allocation helper makes into the block
    it returns; min(a, b) is bounded by either arm."""
    out = []
    for c in h.calls():
        if callee_name(c) == 'memcpy' and len(c['args']) == 3:
            n = strip_casts(c['args'][2])
            if n.get('k') == 'cond':
                cc = strip_casts(n['c'])
                if cc.get('k') == 'bin' and cc['op'] in ('<', '<=', '>', '>='):
                    sides = {expr_str(strip_casts(cc['l'])), expr_str(strip_casts(cc['r']))}
                    arms = {expr_str(strip_casts(n['t'])), expr_str(strip_casts(n['e']))}
                    small = n['t'] if cc['op'] in ('<', '<=') else n['e']
                    if sides == arms and expr_str(strip_casts(small)) == expr_str(strip_casts(cc['l'])):
                        out.append((c, [n['t'], n['e']]))
                        continue
            out.append((c, [c['args'][2]]))
    return out


def _wrapper_copy_sites(u, h, call, szp, R):
    """The copy inside helper h (block size = its parameter szp) is bounded when, at every call site, the size argument is at
    least one of the copy's upper bounds with the helper's parameters replaced by the arguments.  The call site in ensure() is
    decided by OUT4 with the conditions of the path; others by comparing linear forms."""
    bounds = [bs for (c, bs) in wrapper_copy_bounds(u, h) if c is call]
    if not bounds:
        return False, 'copy length not understood'
    bounds = bounds[0]
    pi = [i for i, p in enumerate(h.params) if p['d'] == szp['d']][0]
    pnames = {p['n']: i for i, p in enumerate(h.params)}
    sites = [(g, c) for g in u.function_list for c in g.calls() if callee_name(c) == h.name]
    if not sites:
        return False, 'helper without call sites'
    notes = []
    for (g, c) in sites:
        if g.name == 'ensure':
            notes.append('ensure: OUT4')
            continue
        S = _linstr(c['args'][pi])
        ok = False
        for bnd in bounds:
            txt = expr_str(strip_casts(bnd))
            # textual substitution of parameter names by argument texts (arguments here are plain names)
            import re
            for n_, i_ in pnames.items():
                a = strip_casts(c['args'][i_])
                if a.get('k') == 'ref':
                    txt = re.sub(r'(?<![A-Za-z0-9_>.])%s(?![A-Za-z0-9_])' % re.escape(n_), a['n'], txt)
            want = _linstr_text(txt)
            if want is not None and want[1] == S[1] and want[0] <= S[0]:
                ok = True
        if not ok:
            return False, 'at the call in %s the size %s is not shown to cover the %s bytes copied' % (
                g.name, expr_str(strip_casts(c['args'][pi])), ' / '.join(expr_str(strip_casts(b_)) for b_ in bounds))
        notes.append('%s: size covers the copy' % g.name)
    return True, 'block size is the parameter %s; the copy is bounded at every call site (%s)' % (szp['n'], '; '.join(notes))


def _linstr_text(txt):
    """(const, {atom: coeff}) of a textual sum like `buffer->offset + 1`"""
    txt = txt.replace(' ', '').replace('->', '\x01')
    if not txt:
        return None
    c = 0
    atoms = {}
    import re
    for sign, term in re.findall(r'([+-]?)([^+-]+)', txt):
        sg = -1 if sign == '-' else 1
        term = term.strip('()').replace('\x01', '->')
        if re.fullmatch(r'\d+', term):
            c += sg * int(term)
        else:
            atoms[term] = atoms.get(term, 0) + sg
    return (c, {k: v for k, v in atoms.items() if v})


# ---- OUT1 ----------------------------------------------------------------------------------------------------------------------

def out1(units, R):
    """In the print family every pointer that is written through was obtained from ensure() in the same function (or by
    arithmetic on such a pointer); the buffer is never written through p->buffer directly."""
    u = units['cJSON.c']
    fam = [f for f in print_family(u) if f.name not in ('ensure', 'update_offset')]
    n = 0
    for fn in fam:
        # variables defined (only) from ensure results or arithmetic on such variables
        good = set()
        changed = True
        defs = {}
        for a in assignments(fn):
            if a['op'] == '=' and is_ref(a['l']):
                defs.setdefault(strip_casts(a['l'])['d'], []).append(a['r'])
        for d in fn.locals():
            if 'init' in d and not is_null_const(d['init']):
                defs.setdefault(d['d'], []).append(d['init'])

        def from_ensure(e):
            e = strip_casts(e)
            if e.get('k') == 'call' and callee_name(e) == 'ensure':
                return True
            if e.get('k') == 'ref' and e['d'] in good:
                return True
            if e.get('k') == 'bin' and e['op'] in ('+', '-'):
                return from_ensure(e['l'])
            if is_null_const(e):
                return True
            return False
        while changed:
            changed = False
            for d, rs in defs.items():
                if d not in good and rs and all(from_ensure(r) for r in rs) and any(not is_null_const(r) for r in rs):
                    good.add(d)
                    changed = True
        # blocks this function allocates itself (print(): the final copy): variable -> size expression
        fresh = {}
        for d, rs in defs.items():
            nn = [strip_casts(r) for r in rs if not is_null_const(r)]
            wr = alloc_wrappers(u)

            def size_arg(r):
                if r.get('k') == 'call' and callee_name(r) is None and indirect_field(r) in ('allocate', 'reallocate'):
                    return strip_casts(r['args'][-1])
                if r.get('k') == 'call' and callee_name(r) in wr and wr[callee_name(r)] < len(r['args']):
                    return strip_casts(r['args'][wr[callee_name(r)]])
                return None
            if nn and all(size_arg(r) is not None for r in nn):
                sizes = {expr_str(size_arg(r)) for r in nn}
                if len(sizes) == 1:
                    fresh[d] = size_arg(nn[0])
        for nd in fn.cfg().nodes:
            for ev in node_effects(nd):
                tgt = None
                if ev.kind == 'store':
                    acc = access(ev.lhs)
                    if acc is not None:
                        tgt = (ev.node, acc[0])
                elif ev.kind == 'call' and callee_name(ev.node) in ('sprintf', 'strcpy', 'memcpy', 'strcat', 'memset', 'strncpy') and ev.node['args']:
                    tgt = (ev.node, ev.node['args'][0])
                if tgt is None:
                    continue
                node, base = tgt
                b = strip_casts(base)
                while b.get('k') == 'bin' and b['op'] in ('+', '-'):
                    b = strip_casts(b['l'])
                if b.get('k') == 'un' and b['op'] in ('post++', 'post--', 'pre++', 'pre--'):
                    b = strip_casts(b['e'])
                if b.get('k') == 'ref':
                    t = u.ty(b.get('ty0', b['ty']))
                    if t['c'] == 'array':
                        continue          # local scratch array (number_buffer): BND4's business
                    if t['c'] != 'ptr' or 'char' not in t['s']:
                        continue
                    n += 1
                    if b['d'] in fresh:
                        okf, whyf = _fresh_write_ok(node, b, fresh[b['d']], u)
                        szp = fresh[b['d']]
                        if not okf and szp.get('k') == 'ref' and szp.get('dk') == 'param' and fn.name in alloc_wrappers(u) and \
                                node.get('k') == 'call' and callee_name(node) == 'memcpy':
                            okf, whyf = _wrapper_copy_sites(u, fn, node, szp, R)
                        R.ob('OUT1', fn, node, 'write into the block %s allocated here' % b['n'], okf, whyf, key='freshwrite:%s' % b['n'])
                        continue
                    ok = b['d'] in good
                    if not ok:
                        okp, whyp = _own_buffer_write(u, fn, nd, node, base, b)
                        if okp:
                            R.ob('OUT1', fn, node, 'write through %s' % b['n'], True, whyp, key='write:%s' % b['n'])
                            continue
                    R.ob('OUT1', fn, node, 'write through %s' % b['n'], ok, 'defined only from ensure() results' if ok else
                         '%s is not (only) an ensure() result: the write is not covered by a capacity request' % b['n'],
                         key='write:%s' % b['n'])
                elif b.get('k') == 'mem' and b['f'] == 'buffer':
                    n += 1
                    okd, whyd = _direct_write_has_room(u, fn, nd, node, base, b)
                    R.ob('OUT1', fn, node, 'write through %s' % expr_str(b), okd,
                         whyd if okd else 'the output buffer is written without going through ensure()' + (': ' + whyd if whyd else ''),
                         key='rawwrite:%s' % expr_str(b))
    R.floor('OUT1', 'output writes in the print family', n, 35)


def _direct_write_has_room(u, fn, nd, node, dest, bufmem):
    """A write straight into P->buffer + P->offset that does not go through ensure(): fine where the code has shown for itself that
    the bytes fit - the write is a bounded sprintf / constant-size copy of at most N bytes (terminator included) and is reached
    only through edges that establish  P->offset < P->length  and  P->length - P->offset >= N  (written as > N-1, or as
    P->offset + k < P->length)."""
    P = expr_str(strip_casts(bufmem['b']))
    d = strip_casts(dest)
    # destination is exactly buffer + offset
    parts = []
    work = [d]
    while work:
        x = strip_casts(work.pop())
        if x.get('k') == 'bin' and x['op'] == '+':
            work += [x['l'], x['r']]
        else:
            parts.append(x)
    offs = [x for x in parts if x.get('k') == 'mem' and x['f'] == 'offset' and expr_str(strip_casts(x['b'])) == P]
    bufs = [x for x in parts if x.get('k') == 'mem' and x['f'] == 'buffer']
    if len(parts) != 2 or len(offs) != 1 or len(bufs) != 1:
        return False, ''
    # how many bytes
    need = None
    if node.get('k') == 'call' and callee_name(node) == 'sprintf' and len(node['args']) >= 2 and strip_casts(node['args'][1]).get('k') == 'str':
        tot = 0
        ai = 2
        for piece in parse_format(strip_casts(node['args'][1])['bytes']):
            if piece[0] == 'lit':
                tot += piece[1]
                continue
            arg = node['args'][ai] if ai < len(node['args']) else None
            ai += 1
            m = conv_max_len(piece, u, arg) if piece[1] != 's' else None
            if m is None:
                return False, 'the text printed has no bound'
            tot += m
        need = tot + 1
    elif node.get('k') == 'call' and callee_name(node) in ('memcpy', 'memset') and len(node['args']) == 3 and const_val(node['args'][2]) is not None:
        need = const_val(node['args'][2])
    if need is None:
        return False, ''
    cfg = fn.cfg()

    def side(e):
        """('room', k): P->length - P->offset - k ; ('off', k): P->offset + k ; ('len',) ; ('k', c)"""
        e = strip_casts(e)
        c = const_val(e)
        if c is not None:
            return ('k', c)
        if e.get('k') == 'mem' and expr_str(strip_casts(e['b'])) == P:
            if e['f'] == 'length':
                return ('len',)
            if e['f'] == 'offset':
                return ('off', 0)
        if e.get('k') == 'bin' and e['op'] == '-':
            l, r = side(e['l']), side(e['r'])
            if l == ('len',) and r == ('off', 0):
                return ('room', 0)
        if e.get('k') == 'bin' and e['op'] == '+':
            for (x, y) in ((e['l'], e['r']), (e['r'], e['l'])):
                if side(x) == ('off', 0) and const_val(y) is not None:
                    return ('off', const_val(y))
        return None

    def room_edge(nn, l):
        if nn.kind != 'branch' or l is None or l[0] not in ('T', 'F') or nn.expr is None:
            return False
        e = strip_casts(nn.expr)
        if e.get('k') != 'bin' or e['op'] not in ('<', '<=', '>', '>='):
            return False
        a, b_ = side(e['l']), side(e['r'])
        op = e['op']
        if l[0] == 'F':
            op = {'<': '>=', '<=': '>', '>': '<=', '>=': '<'}[op]
        if op in ('<', '<='):
            a, b_, op = b_, a, {'<': '>', '<=': '>='}[op]
        # a > b_  or a >= b_
        if a is None or b_ is None:
            return False
        if a == ('room', 0) and b_[0] == 'k':
            return b_[1] + (1 if op == '>' else 0) >= need
        if a == ('len',) and b_[0] == 'off':
            return b_[1] + (1 if op == '>' else 0) >= need
        return False

    def inside_edge(nn, l):
        if nn.kind != 'branch' or l is None or l[0] not in ('T', 'F') or nn.expr is None:
            return False
        e = strip_casts(nn.expr)
        if e.get('k') != 'bin' or e['op'] not in ('<', '<=', '>', '>='):
            return False
        a, b_ = side(e['l']), side(e['r'])
        op = e['op']
        if l[0] == 'F':
            op = {'<': '>=', '<=': '>', '>': '<=', '>=': '<'}[op]
        if op in ('<', '<='):
            a, b_, op = b_, a, {'<': '>', '<=': '>='}[op]
        return a == ('len',) and b_ is not None and b_[0] == 'off'
    if guarded_by(cfg, nd.id, room_edge) and guarded_by(cfg, nd.id, inside_edge):
        return True, 'at most %d bytes, and the write is reached only where offset lies inside the buffer and length - offset >= %d was tested' % (need, need)
    if guarded_by(cfg, nd.id, inside_edge):
        return False, 'at most %d bytes are written, but no test on the way establishes that many bytes between offset and length' % need
    return False, ''


def _own_buffer_write(u, fn, nd, node, dest, bref):
    """An entry point that sets a printbuffer P up over the block its caller handed in (P.buffer = B; P.length = N) may store one
    byte at B[P.offset] where it has tested P.offset < P.length: that byte lies inside the caller's block."""
    if bref.get('dk') != 'param' or node.get('k') != 'bin':
        return False, ''
    lhs = strip_casts(node['l'])
    if lhs.get('k') != 'idx' or strip_casts(lhs['b']).get('d') != bref['d']:
        return False, ''
    idx = strip_casts(lhs['i'])
    if not (idx.get('k') == 'mem' and idx['f'] == 'offset' and not idx.get('arrow') and strip_casts(idx['b']).get('k') == 'ref'):
        return False, ''
    P = strip_casts(idx['b'])
    # P.buffer is B, P.length is a parameter, both set once
    bufsets = [a_ for a_ in assignments(fn) if strip_casts(a_['l']).get('k') == 'mem' and strip_casts(a_['l'])['f'] == 'buffer' and
               strip_casts(strip_casts(a_['l'])['b']).get('d') == P['d']]
    lensets = [a_ for a_ in assignments(fn) if strip_casts(a_['l']).get('k') == 'mem' and strip_casts(a_['l'])['f'] == 'length' and
               strip_casts(strip_casts(a_['l'])['b']).get('d') == P['d']]
    if len(bufsets) != 1 or len(lensets) != 1 or strip_casts(bufsets[0]['r']).get('d') != bref['d'] or \
            not any(x.get('k') == 'ref' and x.get('dk') == 'param' for x in walk(lensets[0]['r'])):
        return False, ''
    cfg = fn.cfg()

    def inside(nn, l):
        if nn.kind != 'branch' or l is None or l[0] not in ('T', 'F') or nn.expr is None:
            return False
        e = strip_casts(nn.expr)
        if e.get('k') != 'bin' or e['op'] not in ('<', '>', '<=', '>='):
            return False

        def fld(x, f):
            x = strip_casts(x)
            return x.get('k') == 'mem' and x['f'] == f and strip_casts(x['b']).get('d') == P['d']
        if fld(e['l'], 'offset') and fld(e['r'], 'length'):
            return (e['op'] == '<' and l[0] == 'T') or (e['op'] == '>=' and l[0] == 'F')
        if fld(e['l'], 'length') and fld(e['r'], 'offset'):
            return (e['op'] == '>' and l[0] == 'T') or (e['op'] == '<=' and l[0] == 'F')
        return False
    if guarded_by(cfg, nd.id, inside):
        return True, 'one byte at %s.offset of the caller\'s own block, behind a test of %s.offset < %s.length' % (P['n'], P['n'], P['n'])
    return False, ''


# ---- OUT4 + ensure contract ----------------------------------------------------------------------------------------------------------

def out4(units, R):
    u = units['cJSON.c']
    fn = u.fn('ensure')
    cfg = fn.cfg()
    p = fn.params[0]
    needed = fn.params[1]
    # 1. noalloc gate dominates every allocator call
    wr = alloc_wrappers(u)
    allocs = [c for c in fn.calls() if (callee_name(c) is None and indirect_field(c) in ('allocate', 'reallocate')) or callee_name(c) in wr]
    for c in allocs:
        node = node_containing(cfg, c)

        def gate(nn, l):
            if nn.kind != 'branch' or l is None:
                return False
            e = strip_casts(nn.expr)
            return e.get('k') == 'mem' and e['f'] == 'noalloc' and l[0] == 'F'
        ok = guarded_by(cfg, node.id, gate)
        R.ob('OUT4', fn, c, 'growth by %s only when noalloc is clear' % expr_str(c['fn']), ok,
             'reachable only through the false edge of p->noalloc' if ok else 'the caller-supplied buffer could be reallocated/replaced',
             key='noalloc-gate:%s' % (indirect_field(c) or callee_name(c)))
    R.floor('OUT4', 'allocator calls in ensure', len(allocs), 1 if any(callee_name(c) in wr for c in allocs) else 2)
    # 2./3. what a non-NULL result promises, decided path by path with linear expressions over needed / offset / length
    _ensure_contract(u, fn, cfg, R)
    # 5. a refused reallocate leaves the old block allocated: every way out of ensure with that NULL result releases it first
    par = fn.parents()
    nre = 0
    for c in allocs:
        if not (callee_name(c) is None and indirect_field(c) == 'reallocate'):
            continue
        pa = par.get(c['id'])
        while pa is not None and pa.get('k') == 'cast':
            pa = par.get(pa['id'])
        if not (pa is not None and pa.get('k') == 'bin' and pa['op'] == '=' and is_ref(pa['l'])):
            continue
        rv = strip_casts(pa['l'])['d']
        old = expr_str(strip_casts(c['args'][0])) if c.get('args') else None
        start = node_containing(cfg, c)
        nre += 1

        def releases_old(nd):
            root = getattr(nd, 'expr', None)
            if root is None:
                return False
            for x in walk(root):
                if x.get('k') == 'call' and ((callee_name(x) is None and indirect_field(x) == 'deallocate') or callee_name(x) in ('cJSON_free', 'free')) \
                        and x.get('args') and expr_str(strip_casts(x['args'][0])) == old:
                    return True
            return False

        def null_edge(nd, label):
            # False when the edge contradicts "the result is NULL"
            if nd.kind != 'branch' or label is None or label[0] not in ('T', 'F'):
                return True
            e = strip_casts(nd.expr)
            pol = True      # truth of "rv is non-NULL"
            while e.get('k') == 'un' and e['op'] == '!':
                e = strip_casts(e['e'])
                pol = not pol
            if e.get('k') == 'bin' and e['op'] in ('==', '!=') and (is_null_const(e['l']) or is_null_const(e['r'])):
                o_ = strip_casts(e['l'] if is_null_const(e['r']) else e['r'])
                if o_.get('k') == 'ref' and o_.get('d') == rv:
                    nonnull_when_true = (e['op'] == '!=') == pol
                    return (label[0] == 'T') != nonnull_when_true
                return True
            if e.get('k') == 'ref' and e.get('d') == rv:
                return (label[0] == 'T') != pol
            return True
        seen = set()
        work = [start.id]
        leak = None
        while work and leak is None:
            x = work.pop()
            if x in seen:
                continue
            seen.add(x)
            nd = cfg.nodes[x]
            if x != start.id and releases_old(nd):
                continue
            if nd.kind == 'return' or x == cfg.exit.id:
                leak = nd
                break
            for (y, label) in cfg.succ[x]:
                if null_edge(nd, label):
                    work.append(y)
        R.ob('OUT4', fn, c, 'when the reallocation is refused the old block is released before ensure gives up', leak is None,
             'every way out with a NULL result passes a release of %s' % old if leak is None else
             'with %s == NULL the return at line %d is reached without a release of %s: the block stays allocated and nothing refers to it '
             'any more' % (strip_casts(pa['l'])['n'], leak.line, old), key='realloc-fail')
    # 4. PrintPreallocated set-up
    pp = u.fn('cJSON_PrintPreallocated')
    want = {'buffer': 'buffer', 'length': 'length', 'noalloc': 1, 'offset': 0}
    got = {}
    for a in assignments(pp):
        l = strip_casts(a['l'])
        if l.get('k') == 'mem' and not l['arrow'] and l['f'] in want:
            r = strip_casts(a['r'])
            got[l['f']] = r['n'] if r.get('k') == 'ref' else const_val(a['r'])
    # a field not assigned keeps the value of the zero initialiser of the local printbuffer
    for d in pp.locals():
        if 'init' in d and strip_casts(d['init']).get('k') == 'initlist' and u.ty(d['ty'])['c'] == 'record':
            inits = strip_casts(d['init'])['inits']
            if all(const_val(i) == 0 or i.get('null') or strip_casts(i).get('k') == 'initlist' for i in inits):
                for f in want:
                    got.setdefault(f, 0)
    for f, w in want.items():
        R.ob('OUT4', pp, None, 'cJSON_PrintPreallocated sets p.%s = %s' % (f, w), got.get(f) == w, 'found %s' % got.get(f), key='prealloc:' + f)
    # nobody but ensure writes noalloc/length/buffer of a printbuffer passed by pointer
    n = 0
    # helpers called only from ensure belong to ensure
    ensure_helpers = set()
    for fn2 in print_family(u):
        callers = {g.name for g in u.function_list for c in g.calls() if callee_name(c) == fn2.name}
        if fn2.static and callers and callers <= {'ensure'}:
            ensure_helpers.add(fn2.name)
    for fn2 in print_family(u):
        if fn2.name == 'ensure' or fn2.name in ensure_helpers:
            continue
        local_aggr = {d['d'] for d in fn2.locals() if u.ty(d['ty'])['c'] in ('record', 'array')}
        for a in assignments(fn2):
            l = strip_casts(a['l'])
            if l.get('k') == 'mem' and l['arrow'] and l['f'] in ('noalloc', 'length', 'buffer'):
                b0 = strip_casts(l['b'])
                if b0.get('k') == 'ref' and b0['d'] in local_aggr:
                    continue      # the function's own buffer object (print(): `printbuffer buffer[1]`): set-up, not bookkeeping
                n += 1
                R.ob('OUT4', fn2, a, 'printbuffer field %s is not modified outside ensure' % l['f'], False,
                     '%s changes the capacity bookkeeping of a buffer it was handed' % expr_str(a)[:50], key='bookkeeping:%s:%s' % (fn2.name, l['f']))
    R.ob('OUT4', None, None, 'capacity bookkeeping (buffer/length/noalloc) is written only by ensure and the set-up functions', True,
         '%d offending stores' % n, key='bookkeeping', file='cJSON.c', line=0)


def _ensure_contract(u, fn, cfg, R):
    """Every path of ensure() that returns a pointer: the pointer is <the buffer the path leaves in p->buffer> + p->offset, that
    buffer has room for needed + offset + 1 bytes (the branch conditions on the path, as linear facts over N = needed,
    O = p->offset, L = p->length on entry, must entail it), p->length describes that buffer, and the offset was valid
    (L > 0 implies O < L)."""
    from .outsym import Lin
    pd = fn.params[0]['d']
    nd = fn.params[1]['d']
    N, O, L = Lin(0, {'N': 1}), Lin(0, {'O': 1}), Lin(0, {'L': 1})

    def scale(x, k):
        return Lin(x.c * k, {kk: v * k for kk, v in x.t.items()})

    class S(object):
        pass

    def copy(st):
        s2 = S()
        s2.env = dict(st.env)
        s2.fld = dict(st.fld)
        s2.cons = list(st.cons)
        s2.alloc = dict(st.alloc)
        s2.truth = dict(st.truth)
        s2.reads = list(st.reads)
        s2.flags = set(st.flags)
        return s2

    def truth_of(e, st):
        e = strip_casts(e)
        if e.get('id') in st.truth:
            return st.truth[e['id']]
        if e.get('k') == 'un' and e['op'] == '!':
            t = truth_of(e['e'], st)
            return None if t is None else (not t)
        if e.get('k') == 'bin' and e['op'] == '&&':
            l = truth_of(e['l'], st)
            if l is False:
                return False
            r = truth_of(e['r'], st)
            return r if l is True else None
        if e.get('k') == 'bin' and e['op'] == '||':
            l = truth_of(e['l'], st)
            if l is True:
                return True
            r = truth_of(e['r'], st)
            return r if l is False else None
        return None

    def ev(e, st):
        v = const_val(e)
        if e.get('null') or strip_casts(e).get('null') or (v == 0 and u.ty(e['ty'])['c'] == 'ptr'):
            return ('null',)
        if v is not None:
            return Lin(v)
        e = strip_casts(e)
        k = e.get('k')
        if k == 'ref':
            if e.get('d') in st.env:
                return st.env[e['d']]
            return ('opaque', e.get('n'))
        if k == 'mem':
            b = strip_casts(e['b'])
            if b.get('k') == 'ref' and b.get('d') == pd:
                return st.fld.get(e['f'], ('opaque', 'p->' + e['f']))
            return ('opaque', expr_str(e))
        if k == 'bin' and e['op'] in ('+', '-'):
            l, r = ev(e['l'], st), ev(e['r'], st)
            if isinstance(l, Lin) and isinstance(r, Lin):
                t = u.ty(e['ty'])
                if e['op'] == '-' and t['c'] == 'int' and t.get('unsigned') and not entails(st.cons, r.add(l, -1)):
                    # size_t arithmetic: a difference whose subtrahend is not known to be the smaller wraps around
                    wraps.append((e, expr_str(e)))
                    return ('opaque', 'wrapping ' + expr_str(e)[:30])
                return l.add(r, 1 if e['op'] == '+' else -1)
            if isinstance(l, tuple) and l[0] == 'ptr' and isinstance(r, Lin):
                return ('ptr', l[1], l[2].add(r, 1 if e['op'] == '+' else -1))
            if isinstance(r, tuple) and r[0] == 'ptr' and isinstance(l, Lin) and e['op'] == '+':
                return ('ptr', r[1], r[2].add(l))
            return ('opaque', expr_str(e)[:30])
        if k == 'bin' and e['op'] == '*':
            l, r = ev(e['l'], st), ev(e['r'], st)
            if isinstance(l, Lin) and isinstance(r, Lin):
                if not r.t:
                    return scale(l, r.c)
                if not l.t:
                    return scale(r, l.c)
            return ('opaque', expr_str(e)[:30])
        if k == 'cond':
            t = truth_of(e['c'], st)
            if t is not None:
                return ev(e['t'] if t else e['e'], st)
            return ('opaque', expr_str(e)[:30])
        if k == 'call':
            f = indirect_field(e) if callee_name(e) is None else None
            if f in ('allocate', 'reallocate'):
                size = ev(e['args'][-1], st)
                name = 'NEW%d' % e['id']
                st.alloc[name] = size if isinstance(size, Lin) else None
                return ('ptr', name, Lin(0))
            wr_ = alloc_wrappers(u)
            if callee_name(e) in wr_ and wr_[callee_name(e)] < len(e['args']):
                # a helper that returns a block of the size it is given (or NULL); what it copies into the block must fit
                h = u.functions[callee_name(e)]
                size = ev(e['args'][wr_[callee_name(e)]], st)
                name = 'NEW%d' % e['id']
                st.alloc[name] = size if isinstance(size, Lin) else None
                pb = [p for p, a in zip(h.params, e['args']) if strip_casts(a).get('k') == 'ref' and strip_casts(a).get('d') == pd]
                for (mc, bounds) in wrapper_copy_bounds(u, h):
                    okb = False
                    if isinstance(size, Lin) and pb:
                        for b_ in bounds:
                            bv = ev_as(b_, st, pb[0]['d'])
                            if isinstance(bv, Lin) and entails(st.cons, bv.add(size, -1)):
                                okb = True
                    copies.append((e, mc, okb, h.name))
                return ('ptr', name, Lin(0))
            return ('opaque', expr_str(e)[:30])
        return ('opaque', expr_str(e)[:30])

    def ev_as(e, st, other_pd):
        """ev() of an expression of a helper whose print-buffer parameter (declaration other_pd) is ensure's own"""
        import copy as _copy

        def ren(x):
            if isinstance(x, list):
                return [ren(y) for y in x]
            if not isinstance(x, dict):
                return x
            y = {k: ren(v) for k, v in x.items()}
            if y.get('k') == 'ref' and y.get('d') == other_pd:
                y['d'] = pd
            return y
        return ev(ren(e), st)

    def assign(lhs, val, st):
        l = strip_casts(lhs)
        if l.get('k') == 'ref':
            st.env[l['d']] = val
        elif l.get('k') == 'mem' and strip_casts(l['b']).get('d') == pd:
            st.fld[l['f']] = val

    def execute(node, st):
        from ..dataflow import node_effects as ne
        if node.kind == 'decl':
            if 'init' in node.decl:
                st.env[node.decl['d']] = ev(node.decl['init'], st)
            return
        if node.expr is None:
            return
        for evn in ne(node):
            if evn.kind == 'store':
                a = evn.node
                if a['op'] == '=':
                    assign(a['l'], ev(a['r'], st), st)
                elif a['op'] in ('+=', '-='):
                    cur, r = ev(a['l'], st), ev(a['r'], st)
                    if isinstance(cur, Lin) and isinstance(r, Lin):
                        assign(a['l'], cur.add(r, 1 if a['op'] == '+=' else -1), st)
                    else:
                        assign(a['l'], ('opaque', '?'), st)
                else:
                    assign(a['l'], ('opaque', '?'), st)
            elif evn.kind == 'call' and callee_name(evn.node) in ('memcpy', 'memmove') and len(evn.node['args']) == 3:
                src = ev(evn.node['args'][1], st)
                if isinstance(src, tuple) and src[0] == 'ptr' and src[1] == 'BUF0':
                    k_ = ev(evn.node['args'][2], st)
                    st.reads.append((evn.node, k_.add(src[2]) if isinstance(k_, Lin) else None))

    def add_fact(e, truth, st):
        e = strip_casts(e)
        if not (e.get('k') == 'bin' and e['op'] in ('<', '<=', '>', '>=', '==', '!=')):
            return
        l, r = ev(e['l'], st), ev(e['r'], st)
        if not (isinstance(l, Lin) and isinstance(r, Lin)):
            return
        op = e['op']
        if not truth:
            op = {'<': '>=', '<=': '>', '>': '<=', '>=': '<', '==': '!=', '!=': '=='}[op]
        d = l.add(r, -1)
        # normalise to  X <= 0
        if op == '<=':
            st.cons.append(d)
        elif op == '<':
            st.cons.append(d.add(Lin(1)))
        elif op == '>=':
            st.cons.append(scale(d, -1))
        elif op == '>':
            st.cons.append(scale(d, -1).add(Lin(1)))
        elif op == '==':
            st.cons.append(d)
            st.cons.append(scale(d, -1))

    def entails(cons, target):
        """some fact X <= 0 on the path gives target <= 0 (target <= X coefficient-wise, all symbols being non-negative)"""
        return any(target.leq(c) for c in cons) or target.leq(Lin(0))
    wraps = []
    copies = []
    st0 = S()
    st0.env = {nd: N}
    st0.fld = {'offset': O, 'length': L, 'buffer': ('ptr', 'BUF0', Lin(0))}
    st0.cons = []
    st0.alloc = {}
    st0.truth = {}
    st0.reads = []       # (call, bytes read out of the buffer the function was entered with)
    st0.flags = set()    # 'noalloc' once the path has tested p->noalloc
    results = []
    work = [(cfg.entry.id, st0)]
    steps = 0
    while work:
        nid, st = work.pop()
        steps += 1
        if steps > 5000:
            raise AnalysisBroken('OUT4: paths of ensure do not finish (loop?)')
        node = cfg.nodes[nid]
        if node.kind == 'return':
            results.append((node, ev(node.expr, st) if node.expr is not None else ('null',), st))
            continue
        st = copy(st)
        # a selection that the CFG left inside the statement: decide it both ways, with its condition as a fact
        root = node.expr if node.expr is not None else (node.decl.get('init') if node.kind == 'decl' and node.decl else None)
        pending = [x for x in walk(root) if x.get('k') == 'cond' and x.get('id') not in (node.skip or ()) and
                   truth_of(x['c'], st) is None] if root is not None else []
        if pending and node.kind != 'branch':
            c0 = pending[0]['c']
            for tv in (True, False):
                s1 = copy(st)
                s1.truth[strip_casts(c0)['id']] = tv
                add_fact(c0, tv, s1)
                work.append((nid, s1))
            continue
        execute(node, st)
        for (y, label) in cfg.succ[nid]:
            s2 = st
            if label is not None and label[0] in ('T', 'F') and node.kind == 'branch':
                s2 = copy(st)
                truth = label[0] == 'T'
                e = strip_casts(label[1])
                if label[1].get('id') is not None:
                    s2.truth[label[1]['id']] = truth
                if any(x.get('k') == 'mem' and x.get('f') == 'noalloc' for x in walk(label[1])):
                    s2.flags.add('noalloc')
                if e.get('id') is not None:
                    s2.truth[e['id']] = truth
                if e.get('k') == 'bin' and e['op'] in ('<', '<=', '>', '>=', '==', '!='):
                    l, r = ev(e['l'], s2), ev(e['r'], s2)
                    if isinstance(l, Lin) and isinstance(r, Lin):
                        add_fact(e, truth, s2)
                    else:
                        # NULL tests of a fresh block: the variable is NULL on the null side
                        dead = False
                        for (x, y2) in ((e['l'], e['r']), (e['r'], e['l'])):
                            if is_null_const(y2) and is_ref(x) and s2.env.get(strip_casts(x)['d']) == ('null',) and e['op'] in ('==', '!='):
                                if ((e['op'] == '==') == truth) is False:
                                    dead = True        # already known to be NULL: the non-NULL side cannot be taken
                        if dead:
                            continue
                        for (x, y2) in ((e['l'], e['r']), (e['r'], e['l'])):
                            if is_null_const(y2) and is_ref(x) and isinstance(s2.env.get(strip_casts(x)['d']), tuple) and \
                                    s2.env[strip_casts(x)['d']][0] == 'ptr' and e['op'] in ('==', '!='):
                                isnull = (e['op'] == '==') == truth
                                if isnull:
                                    s2.env[strip_casts(x)['d']] = ('null',)
                elif is_ref(e) and s2.env.get(e['d']) == ('null',) and truth:
                    continue
                elif is_ref(e) and isinstance(s2.env.get(e['d']), tuple) and s2.env[e['d']][0] == 'ptr' and not truth:
                    s2.env[e['d']] = ('null',)
            work.append((y, s2))

    # how many bytes beyond the request every grant leaves free (the historic spare byte: needed + offset + 1 <= capacity)
    def fits(st, base, extra):
        cap = L if base == 'BUF0' else st.alloc.get(base)
        if cap is None:
            return False
        need = N.add(O).add(Lin(extra))
        ok_ = entails(st.cons, need.add(cap, -1))
        if not ok_ and base != 'BUF0':
            ok_ = need.leq(cap)
        return bool(ok_)
    grants = [(node, val, st) for (node, val, st) in results if isinstance(val, tuple) and val[0] == 'ptr']
    fitting = [(val, st) for (_n, val, st) in grants if fits(st, val[1], 0)]      # (a grant that does not fit is reported below)
    spare = 1 if fitting and all(fits(st, val[1], 1) for (val, st) in fitting) else 0
    n_ok = 0
    for (node, val, st) in results:
        if not (isinstance(val, tuple) and val[0] == 'ptr'):
            if isinstance(val, tuple) and val[0] == 'null':
                continue
            R.ob('OUT4', fn, node.stmt, 'result of ensure is NULL or a position in the buffer', False, 'returns %s' % (val,), key='result-kind:%d' % node.line)
            continue
        n_ok += 1
        base, off = val[1], val[2]
        bf = st.fld.get('buffer')
        R.ob('OUT4', fn, node.stmt, 'the result is the buffer + offset', off.eq(O) and isinstance(bf, tuple) and bf[0] == 'ptr' and
             bf[1] == base and bf[2].eq(Lin(0)),
             'returns %s + %s, p->buffer is %s' % (base, off, st.fld.get('buffer')), key='fit-result:%s' % ('inplace' if base == 'BUF0' else 'grown'))
        cap = L if base == 'BUF0' else st.alloc.get(base)
        okc = fits(st, base, 0)
        R.ob('OUT4', fn, node.stmt, 'a non-NULL result has room for the needed bytes at the offset (needed + offset <= capacity)', bool(okc),
             'capacity %s; the conditions on this path give needed + offset%s <= capacity' % (cap, ' + 1' if fits(st, base, 1) else '') if okc else
             'capacity %s is not shown to hold N + O on this path%s' % (
                 cap, ''.join('; the size_t difference %s can wrap around on some path (its subtrahend is not bounded by the conditions before it)' % w
                              for w in sorted({w for (_, w) in wraps}))), key='fit-accounting:%s' % ('inplace' if base == 'BUF0' else 'grown'))
        lenf = st.fld.get('length')
        R.ob('OUT4', fn, node.stmt, 'p->length describes the buffer the result points into', isinstance(lenf, Lin) and cap is not None and lenf.eq(cap),
             'p->length = %s, capacity %s' % (lenf, cap), key='fit-length:%s' % ('inplace' if base == 'BUF0' else 'grown'))
        # what is copied out of the old buffer lies inside it (an empty buffer, length 0, is left to the allocator)
        for (mc, k_) in st.reads:
            okr = k_ is not None and (entails(st.cons, k_.add(L, -1)) or entails(st.cons, L))
            R.ob('OUT4', fn, mc, 'the bytes copied out of the old buffer lie inside it', bool(okr),
                 '%s <= length holds on this path' % k_ if okr else
                 '%s byte(s) are read from a buffer of `length` bytes and nothing on this path bounds them by it' % (k_,), key='old-read')
    # a request is refused for the offset alone only in a state no earlier grant can have produced: after a grant of N bytes
    # the offset is at most length - spare, so `offset > length - spare` is the only offset a refusal may name
    for (node, val, st) in results:
        if not (isinstance(val, tuple) and val[0] == 'null') or st.alloc or 'noalloc' in st.flags or not st.cons:
            continue
        syms = set()
        for c_ in st.cons:
            syms |= set(c_.t)
        if 'N' in syms or 'O' not in syms or not syms <= {'O', 'L'}:
            continue
        okf = entails(st.cons, L.add(Lin(1 - spare)).add(O, -1))
        R.ob('OUT4', fn, node.stmt, 'a request is refused for its offset only when no grant can have left the offset there', okf,
             'refused only for offset > length - %d (every grant keeps %d spare byte(s))' % (spare, spare) if okf else
             'grants leave %d spare byte(s), so the offset can legitimately reach length - %d; this path refuses such a buffer instead '
             'of growing it and the print fails for a printable tree' % (spare, spare), key='refusal:offset')
    R.floor('OUT4', 'non-NULL results of ensure', n_ok, 2)
    seen_c = {}
    for (e, mc, okb, hname) in copies:
        k = (e['id'], mc['id'])
        seen_c[k] = seen_c.get(k, True) and okb
    for (e, mc, _okb, hname) in copies:
        k = (e['id'], mc['id'])
        if k not in seen_c:
            continue
        okb = seen_c.pop(k)
        R.ob('OUT4', fn, e, 'what %s copies into the new block fits the size it is given' % hname, okb,
             'on every path to the call the size covers %s' % expr_str(strip_casts(mc['args'][2]))[:50] if okb else
             'the size handed to %s is not shown to cover %s' % (hname, expr_str(strip_casts(mc['args'][2]))[:50]), key='wrapper-copy:%s' % hname)


# ---- TAB2 print funnel ------------------------------------------------------------------------------------------------------------------

def tab2_print(units, R):
    u = units['cJSON.c']
    entries = ['cJSON_Print', 'cJSON_PrintUnformatted', 'cJSON_PrintBuffered', 'cJSON_PrintPreallocated']
    reach = {}
    for name in entries:
        fn = u.fn(name)
        item = fn.params[0]
        seen = {name}
        work = [fn]
        hits = []
        while work:
            f = work.pop()
            for c in f.calls():
                cn = callee_name(c)
                if cn == 'print_value':
                    hits.append((f, c))
                elif cn in u.functions and cn not in seen and cn == 'print':
                    seen.add(cn)
                    work.append(u.functions[cn])
        ok = len(hits) == 1
        R.ob('TAB2', fn, None, '%s prints through the one print_value' % name, ok, '%d print_value call(s) reached' % len(hits), key='printfunnel:' + name)
        if ok:
            f, c = hits[0]
            a0 = strip_casts(c['args'][0])
            okitem = a0.get('k') == 'ref' and a0.get('dk') == 'param' and a0['n'] == f.params[0]['n']
            R.ob('TAB2', f, c, '%s prints the caller\'s item' % name, okitem, expr_str(a0), key='printitem:' + name)
    # format flag reaches the buffer unchanged
    pf = u.fn('print')
    fmts = [a for a in assignments(pf) if is_mem(a['l'], 'format')]
    ok = len(fmts) == 1 and is_ref(fmts[0]['r']) and strip_casts(fmts[0]['r']).get('dk') == 'param'
    R.ob('TAB2', pf, None, 'print() copies its format argument into the buffer', ok, '', key='print-format')
    for name, val in (('cJSON_Print', 1), ('cJSON_PrintUnformatted', 0)):
        fn = u.fn(name)
        cs = [c for c in fn.calls() if callee_name(c) == 'print']
        ok = len(cs) == 1 and const_val(cs[0]['args'][1]) == val
        R.ob('TAB2', fn, None, '%s asks for format = %d' % (name, val), ok, '', key='fmtconst:' + name)
    # print(): both arms of the final shrink/copy use offset + 1 bytes
    sizes = []
    for c in pf.calls():
        if callee_name(c) is None and indirect_field(c) in ('allocate', 'reallocate'):
            a = c['args'][-1]
            sizes.append((indirect_field(c), expr_str(strip_casts(a))))
    final = [s for (f, s) in sizes if 'offset' in s]
    wr = alloc_wrappers(u)
    via = [expr_str(strip_casts(c['args'][wr[callee_name(c)]])) for c in pf.calls() if callee_name(c) in wr and wr[callee_name(c)] < len(c['args'])]
    via = [s for s in via if 'offset' in s]
    okf = (len(final) == 2 and final[0] == final[1]) or (not final and len(via) == 1)
    R.ob('TAB2', pf, None, 'print(): the realloc arm and the allocate+copy arm return blocks of the same size', okf,
         'sizes %s' % (final or ['%s (both arms inside one helper that takes the size)' % via[0]] if via else final), key='print-final-size')
    R.floor('TAB2', 'print entry points', len(entries), 4)


# ---- TAB5b/c printer escape tables ----------------------------------------------------------------------------------------------------

def tab5bc(units, R):
    """TAB5b/TAB5c: what print_string_ptr reserves and writes for every byte value 1..255.  Both loops of the function are
    followed path by path with the set of values the byte under the cursor can have (rules/bytepath.py); for each byte
    value the text the emitting pass writes is expanded (letters, the formatted \\uXXXX text) and compared with what the
    counting pass adds, with RFC 8259 section 7 and with the parser's escape table."""
    from .parse import RFC8259_ESCAPES
    from . import bytepath as bp
    u = units['cJSON.c']
    fn = u.fn('print_string_ptr')
    ex = bp.explore(u, fn)
    heads = sorted(ex.heads)
    counting, emitting = None, None
    for h in heads:
        segs = [sg for sg in bp.loop_segments(ex, h) if sg.end == ('head', h)]
        if not segs:
            continue
        if any(sg.writes for sg in segs):
            emitting = emitting if emitting is not None else h
        elif any(v is not None and v[0] == 'd' and v[1] != 0 for sg in segs for v in sg.vals.values()):
            counting = counting if counting is not None else h
    if counting is None or emitting is None:
        raise AnalysisBroken('TAB5b: print_string_ptr: counting and emitting loops not found (loop heads %s)' % heads)
    csegs = [sg for sg in bp.loop_segments(ex, counting) if sg.end == ('head', counting)]
    esegs = [sg for sg in bp.loop_segments(ex, emitting) if sg.end == ('head', emitting)]
    cin = bp.reading_cursors(csegs)
    ein = bp.reading_cursors(esegs)
    eout = bp.writing_cursors(esegs)
    if len(cin) != 1 or len(ein) != 1 or len(eout) != 1:
        raise AnalysisBroken('TAB5b: print_string_ptr: cursors of the two loops not identified (%s / %s -> %s)' % (sorted(cin), sorted(ein), sorted(eout)))
    cin, ein, eout = next(iter(cin)), next(iter(ein)), next(iter(eout))
    counters = {n for sg in csegs for n, v in sg.vals.items() if v is not None and v[0] == 'd' and v[1] != 0}
    if len(counters) != 1:
        raise AnalysisBroken('TAB5b: print_string_ptr: the counting loop changes %s' % sorted(counters))
    counter = next(iter(counters))
    # bytes handed to a function of the unit to be written (a bounded escape writer): what it writes, and how much of it when its
    # room is short, is not evaluated by this rule
    eout_name = eout if isinstance(eout, str) else eout[0]
    for c_ in fn.calls():
        if callee_name(c_) in u.functions and any(strip_casts(a_).get('k') == 'ref' and strip_casts(a_).get('n') == eout_name for a_ in c_['args']):
            raise AnalysisBroken('TAB5b: %s: print_string_ptr hands its output cursor to %s; the text that function writes is not evaluated '
                                 'by this rule' % (fn.where(c_), callee_name(c_)))
    counted, text_of = {}, {}
    for b in range(1, 256):
        cs = [sg for sg in csegs if b in sg.bytes_at(cin)]
        es = [sg for sg in esegs if b in sg.bytes_at(ein)]
        if not cs or not es:
            raise AnalysisBroken('TAB5b: print_string_ptr: byte %d leaves the %s loop' % (b, 'counting' if not cs else 'emitting'))
        cv = set()
        for sg in cs:
            v = sg.vals.get(counter)
            cv.add(v[1] if (v is not None and v[0] == 'd' and sg.adv(cin) == 1) else None)
        counted[b] = cv
        tv = set()
        for sg in es:
            text = bp.expand_text(sg.writes_through(eout), 0, lambda p, b=b: b)
            n = sg.adv(eout)
            if text is None or n is None or sg.adv(ein) != 1 or not all(i in text for i in range(n)) or \
                    any(i > n or (i == n and text[i] != 0) for i in text):
                tv.add(None)       # cursor and bytes written disagree, or the text is not known
            else:
                tv.add(tuple(text[i] for i in range(n)))
        text_of[b] = tv
    # count vs emit: either the counter holds the extra bytes (text - 1) or the whole text, consistently
    bad_extra = [b for b in range(1, 256) if len(counted[b]) != 1 or len(text_of[b]) != 1 or None in counted[b] or None in text_of[b] or
                 next(iter(counted[b])) != len(next(iter(text_of[b]))) - 1]
    bad_total = [b for b in range(1, 256) if len(counted[b]) != 1 or len(text_of[b]) != 1 or None in counted[b] or None in text_of[b] or
                 next(iter(counted[b])) != len(next(iter(text_of[b])))]
    bad = bad_extra if len(bad_extra) <= len(bad_total) else bad_total
    loop_stmt = ex.heads[counting].stmt
    R.ob('TAB5b', fn, loop_stmt, 'for every byte 1..255 the counting pass reserves what the emitting pass writes', not bad,
         'all 255 values agree' if not bad else 'disagree for bytes %s (counted %s, emitted %s)' % (
             bad[:6], [sorted(counted[b], key=repr) for b in bad[:6]],
             [sorted(((len(t) if t is not None else None) for t in text_of[b]), key=repr) for b in bad[:6]]), key='count-vs-emit')
    # the text itself: RFC 8259 section 7
    inv = {}
    for letter, val in RFC8259_ESCAPES.items():
        if isinstance(val, int):
            inv[val] = letter
        elif val == 'self':
            inv[letter] = letter
    unesc, over, badu, wrong = [], [], [], {}
    letters = {}
    for b in range(1, 256):
        for t in text_of[b]:
            if t is None:
                continue
            must = b < 32 or b in (34, 92)
            if t == (b,):
                if must:
                    unesc.append(b)
                continue
            if not must and b >= 128:
                # an ASCII byte may be escaped (the reader decodes \u007f to the same byte; the spelling is judged below); a byte
                # of a multi-byte character may not: \u00e9 reads back as the character U+00E9, two other bytes
                over.append(b)
            if len(t) == 2 and t[0] == 92:
                letters[b] = t[1]
                if inv.get(b) != t[1] or b == ord('/') and False:
                    wrong[b] = t[1]
            elif len(t) == 6 and t[0] == 92 and t[1] == ord('u'):
                hx = bytes(t[2:]).decode('latin1')
                try:
                    okh = int(hx, 16) == b and all(ch in '0123456789abcdefABCDEF' for ch in hx)
                except ValueError:
                    okh = False
                if not okh:
                    badu.append((b, hx))
            else:
                badu.append((b, bytes(t).decode('latin1')))
    eloop = ex.heads[emitting].stmt
    R.ob('TAB5b', fn, eloop, 'bytes written as \\u are u + four hex digits spelling the byte, and the cursor steps over all of them', not badu,
         'all control bytes without a letter' if not badu else 'byte %d is written as %r' % badu[0], key='u-format')
    R.ob('TAB5b', fn, None, 'quote, backslash and every control byte are escaped', not unesc, 'unescaped: %s' % unesc, key='must-escape')
    R.ob('TAB5b', fn, None, 'no byte above 0x7F is escaped (the bytes of multi-byte characters are copied verbatim)', not over,
         'escaped as if they were code points: %s' % over[:8], key='only-escape')
    R.ob('TAB5c', fn, eloop, 'every escape letter written is decoded by the parser to the same byte', not wrong,
         'byte->letter %s' % {k: chr(v) for k, v in sorted(letters.items())} if not wrong else 'mismatch %s' % {k: chr(v) for k, v in wrong.items()},
         key='printer-parser')
# ---- TAB15 format only affects whitespace ---------------------------------------------------------------------------------------------------

WHITESPACE = {32, 9, 10}


def tab15(units, R):
    """Statements controlled by ->format store only blanks, tabs and newlines; format otherwise only takes part in length
    computations and ensure() requests."""
    u = units['cJSON.c']
    n = 0
    for fn in print_family(u):
        cfg = fn.cfg()
        # locals that hold a copy of ->format (const cJSON_bool format = output_buffer->format;) stand for it
        fcopies = set()
        for d_ in fn.locals():
            if 'init' in d_ and is_mem(d_['init'], 'format') and \
                    not any(strip_casts(a['l']).get('k') == 'ref' and strip_casts(a['l'])['d'] == d_['d'] for a in assignments(fn)):
                fcopies.add(d_['d'])
        for a_ in assignments(fn):
            l_ = strip_casts(a_['l'])
            if l_.get('k') == 'ref' and a_['op'] == '=' and is_mem(a_['r'], 'format') and \
                    sum(1 for b_ in assignments(fn) if strip_casts(b_['l']).get('k') == 'ref' and strip_casts(b_['l'])['d'] == l_['d']) == 1 and \
                    not any(d_['d'] == l_['d'] and 'init' in d_ and const_val(d_['init']) is None for d_ in fn.locals()):
                fcopies.add(l_['d'])

        def is_fmt(e):
            e = strip_casts(e)
            return is_mem(e, 'format') or (e.get('k') == 'ref' and e.get('d') in fcopies)

        def is_format_test(e):
            e = strip_casts(e)
            if is_fmt(e):
                return True
            p = cmp_parts(e)
            return p is not None and p[2] == 0 and p[1] in ('==', '!=') and is_fmt(p[0])
        fbranches = [b for b in cfg.nodes if b.kind == 'branch' and is_format_test(b.expr)]
        if not fbranches:
            continue
        for b in fbranches:
            # nodes that execute only when format is true / only when false
            for pol in ('T', 'F'):
                allreach = cfg.reachable(cfg.entry.id)
                without = region_without_edges(cfg, lambda nn, l, b=b, pol=pol: nn.id == b.id and l is not None and l[0] == pol)
                only = allreach - without
                for nid in only:
                    nd = cfg.nodes[nid]
                    for ev in node_effects(nd):
                        if ev.kind == 'store':
                            acc = access(ev.lhs)
                            if acc is None:
                                continue
                            n += 1
                            v = const_val(ev.node['r']) if ev.rhs is not None else None
                            ok = v in WHITESPACE
                            why = 'writes %r' % (chr(v) if v is not None else expr_str(ev.node['r'])[:30])
                            r0 = strip_casts(ev.node['r']) if ev.rhs is not None else {}
                            if not ok and r0.get('k') == 'ref' and r0.get('dk') == 'param' and \
                                    not any(is_ref(a_['l']) and strip_casts(a_['l'])['d'] == r0['d'] for a_ in assignments(fn)):
                                # the byte is a parameter: whitespace when every call site hands a whitespace constant over
                                pi = [i for i, p_ in enumerate(fn.params) if p_['d'] == r0['d']][0]
                                sites = [c_ for g_ in u.function_list for c_ in g_.calls() if callee_name(c_) == fn.name]
                                vals = [const_val(c_['args'][pi]) if pi < len(c_['args']) else None for c_ in sites]
                                if sites and all(v_ in WHITESPACE for v_ in vals):
                                    ok = True
                                    why = 'parameter %s, a whitespace constant at each of the %d call sites' % (r0['n'], len(sites))
                                elif sites:
                                    why = 'parameter %s, which is %s at a call site' % (r0['n'], [expr_str(c_['args'][pi])[:12] for c_, v_ in zip(sites, vals) if v_ not in WHITESPACE][0])
                            R.ob('TAB15', fn, ev.node, 'store controlled by format writes whitespace only', ok, why,
                                 key='fmtstore:%s' % expr_str(ev.node)[:40])
                        elif ev.kind == 'call' and callee_name(ev.node) == 'memset' and len(ev.node['args']) == 3:
                            n += 1
                            v = const_val(ev.node['args'][1])
                            R.ob('TAB15', fn, ev.node, 'store controlled by format writes whitespace only', v in WHITESPACE,
                                 'fills with %r' % (chr(v) if v is not None else expr_str(ev.node['args'][1])[:30]),
                                 key='fmtstore:%s' % expr_str(ev.node)[:40])
                        elif ev.kind == 'call' and callee_name(ev.node) not in ('ensure', None) and callee_name(ev.node) in u.functions:
                            n += 1
                            R.ob('TAB15', fn, ev.node, 'call %s controlled by format' % callee_name(ev.node), False,
                                 'the formatted and unformatted output would differ in more than whitespace', key='fmtcall:%s' % callee_name(ev.node))
        # value-context uses: format ? a : b must be integer constants (lengths)
        for x in fn.nodes():
            if x.get('k') == 'cond' and is_format_test(x['c']):
                n += 1
                ok = u.ty(x['ty'])['c'] == 'int'
                R.ob('TAB15', fn, x, 'format selects a length only', ok, expr_str(x)[:50], key='fmtcond:%s' % expr_str(x)[:40])
    R.floor('TAB15', 'format-controlled stores and selections', n, 4)


# ---- TAB16 locale -----------------------------------------------------------------------------------------------------------------------

def tab16(units, R):
    """A function that converts floating-point text with strtod / sscanf / sprintf %g obtains the locale's decimal point and
    substitutes it (the text it parses/prints uses '.')."""
    u = units['cJSON.c']
    n = 0
    for fn in u.function_list:
        uses = []
        for c in fn.calls():
            cn = callee_name(c)
            if cn == 'strtod':
                uses.append(c)
            if cn in ('sprintf', 'sscanf', '__isoc99_sscanf'):
                f = strip_casts(c['args'][1]) if len(c['args']) > 1 else None
                if f is not None and f.get('k') == 'str' and any(p[0] == 'conv' and p[1] in 'gGeEfF' for p in parse_format(f['bytes'])):
                    uses.append(c)
        if not uses:
            continue
        n += 1
        dp = [d for d in fn.locals() if 'init' in d and strip_casts(d['init']).get('k') == 'call' and
              callee_name(strip_casts(d['init'])) == 'get_decimal_point']
        ok = False
        why = 'no call of get_decimal_point()'
        if dp:
            did = dp[0]['d']
            used = [x for x in fn.nodes() if x.get('k') == 'ref' and x.get('d') == did]
            subst = False
            for x in used:
                p = fn.parents().get(x['id'])
                while p is not None and p.get('k') == 'cast':
                    p = fn.parents().get(p['id'])
                if p is not None and p.get('k') == 'bin' and p['op'] in ('==', '!=', '='):
                    subst = True
            ok = subst
            why = 'decimal point of the current locale is compared/substituted' if ok else 'decimal point obtained but never used'
        R.ob('TAB16', fn, uses[0], '%s normalises the locale decimal point around %s' % (fn.name, callee_name(uses[0])), ok, why,
             key='locale:' + fn.name)
    R.floor('TAB16', 'functions converting floating-point text', n, 2)


# ---- LIT printer literals -----------------------------------------------------------------------------------------------------------------

def print_literals(units, R):
    """print_value writes exactly the three JSON literals, each for its own kind."""
    u = units['cJSON.c']
    fn = u.fn('print_value')
    from .parse import _switch_arms
    sws = [s for s in fn.nodes() if s.get('k') == 'switch']
    if not sws:
        raise AnalysisBroken('LIT: print_value has no switch')
    want = {4: 'null', 1: 'false', 2: 'true'}
    got = {}
    for (labels, stmts) in _switch_arms(sws[0]):
        lit = None
        for s in stmts:
            for x in walk(s):
                if x.get('k') == 'call' and callee_name(x) in ('strcpy', 'memcpy'):
                    a = strip_casts(x['args'][1])
                    if a.get('k') == 'str':
                        lit = bytes(a['bytes']).decode('latin1')
                elif x.get('k') == 'call' and callee_name(x) in u.functions and u.functions[callee_name(x)].static:
                    # a helper that copies the text it is given (its parameter is the source of a strcpy/memcpy)
                    h = u.functions[callee_name(x)]
                    for i, a in enumerate(x['args']):
                        a0 = strip_casts(a)
                        if a0.get('k') != 'str' or i >= len(h.params):
                            continue
                        pd = h.params[i]['d']
                        if any(callee_name(c) in ('strcpy', 'memcpy') and len(c['args']) > 1 and
                               strip_casts(c['args'][1]).get('d') == pd for c in h.calls()):
                            lit = bytes(a0['bytes']).decode('latin1')
        for lb in labels:
            if lb in want:
                got[lb] = lit
    for k, w in want.items():
        R.ob('LIT', fn, None, 'kind %d prints as %s' % (k, w), got.get(k) == w, 'found %r' % got.get(k), key='lit:%s' % w)
    R.floor('LIT', 'printer literals', len(got), 3)


# ---- OUT8: no second request while bytes written under the first are not accounted -------------------------------------

def out8(units, R):
    """ensure() may move the print buffer and, when it has to copy, preserves only the bytes up to ->offset.  So between two
    requests on one path, whatever was written through the first result must have been accounted (->offset advanced,
    or update_offset called) before the second request is made.  Forward may-dataflow of a 'written but not accounted'
    flag; independent of how positions and lengths are computed, which is what OUT2/OUT3 need and may not understand."""
    from ..dataflow import solve
    u = units['cJSON.c']
    n = 0
    fam = print_family(u)
    famnames = {f.name for f in fam}
    # the premise: what does ensure() carry over when it has to copy?  (memcpy(new, p->buffer, p->offset + 1) on the pinned
    # tree; a variant that copies p->length bytes preserves everything that was written, accounted or not)
    ens = u.functions.get('ensure')
    if ens is not None and ens.body is not None:
        wr = alloc_wrappers(u)
        bodies = [ens] + [u.functions[callee_name(c)] for c in ens.calls() if callee_name(c) in wr]
        copies = []
        for h in bodies:
            bufp = [p_['d'] for p_ in h.params if u.ty(p_['ty'])['c'] == 'ptr']
            for c in h.calls():
                if callee_name(c) in ('memcpy', 'memmove') and len(c['args']) == 3:
                    src = strip_casts(c['args'][1])
                    if src.get('k') == 'mem' and src['f'] == 'buffer' and is_ref(src['b']) and strip_casts(src['b'])['d'] in bufp:
                        sz = strip_casts(c['args'][2])
                        copies.append(sz.get('k') == 'mem' and sz['f'] == 'length' and is_ref(sz['b']) and
                                      strip_casts(sz['b'])['d'] == strip_casts(src['b'])['d'])
        if copies and all(copies):
            R.ob('OUT8', ens, None, 'what ensure() carries over when it copies the buffer', True,
                 'the whole old buffer (p->length bytes): bytes written behind ->offset survive a later request', key='premise')
            R.floor('OUT8', 'capacity requests in the print family', 8, 8)
            return
    leaves_dirty = {}      # printer -> it can return with bytes written that ->offset does not cover yet
    for _round in range(6):
        before = dict(leaves_dirty)
        _out8_pass(u, fam, famnames, leaves_dirty, None)
        if leaves_dirty == before:
            break
    n = _out8_pass(u, fam, famnames, leaves_dirty, R)
    R.floor('OUT8', 'capacity requests in the print family', n, 8)


def _out8_pass(u, fam, famnames, leaves_dirty, R):
    from ..dataflow import solve
    n = 0
    # family functions that read ->offset (directly or through another family function) without being the accounting itself
    reads_offset = set()
    changed = True
    while changed:
        changed = False
        for f_ in fam:
            if f_.name in reads_offset or f_.name in ('ensure', 'update_offset') or f_.body is None:
                continue
            lhs_ = set()
            for x in f_.nodes():
                if x.get('k') == 'bin' and x.get('op') in ASSIGN_OPS:
                    lhs_.add(strip_casts(x['l']).get('id'))
            direct = any(x.get('k') == 'mem' and x.get('f') == 'offset' and x.get('id') not in lhs_ for x in f_.nodes())
            starts_clean = False
            if direct:
                # a function that accounts first (update_offset before any read) is not a reader of a stale offset
                fc = f_.cfg()
                upd = {fc.node_of_expr(c['id']).id for c in f_.calls() if callee_name(c) == 'update_offset' and fc.node_of_expr(c['id'])}
                rd = [fc.node_of_expr(x['id']) for x in f_.nodes() if x.get('k') == 'mem' and x.get('f') == 'offset' and x.get('id') not in lhs_]
                reach = fc.reachable(fc.entry.id, stop=upd)
                starts_clean = all(r_ is None or r_.id not in reach for r_ in rd)
            if (direct and not starts_clean) or any(callee_name(c) in reads_offset for c in f_.calls()):
                reads_offset.add(f_.name)
                changed = True
    for fn in fam:
        calls = [c for c in fn.calls() if callee_name(c) == 'ensure' or callee_name(c) in famnames]
        if not calls or fn.name in ('ensure', 'update_offset'):
            continue
        cfg = fn.cfg()
        # locals that hold (something derived from) an ensure result
        derived = set()
        changed = True
        while changed:
            changed = False
            srcs = []
            for d in fn.locals():
                if 'init' in d:
                    srcs.append((d['d'], d['init']))
            for a in assignments(fn):
                if is_ref(a['l']):
                    srcs.append((strip_casts(a['l'])['d'], a['r']))
            for (d, rhs) in srcs:
                if d in derived:
                    continue
                r = strip_casts(rhs)
                hit = (r.get('k') == 'call' and callee_name(r) == 'ensure') or any(
                    x.get('k') == 'ref' and x.get('d') in derived for x in walk(rhs))
                if hit and u.ty([dd for dd in fn.locals() if dd['d'] == d][0]['ty'])['c'] == 'ptr' if any(dd['d'] == d for dd in fn.locals()) else False:
                    derived.add(d)
                    changed = True

        def through_grant(lv):
            acc = access(lv)
            if acc is None:
                return False
            return any(x.get('k') == 'ref' and x.get('d') in derived for x in walk(acc[0]))

        def offset_reads(node):
            root = node.expr if node.expr is not None else (node.decl.get('init') if node.kind == 'decl' and node.decl else None)
            if root is None:
                return []
            lhs = set()
            for x in walk(root):
                if x.get('k') == 'bin' and x.get('op') in ASSIGN_OPS:
                    lhs.add(strip_casts(x['l']).get('id'))
                elif x.get('k') == 'un' and x.get('op') in ('pre++', 'pre--', 'post++', 'post--'):
                    lhs.add(strip_casts(x['e']).get('id'))
            return [x for x in walk(root) if x.get('k') == 'mem' and x.get('f') == 'offset' and x.get('id') not in lhs]

        def transfer(node, dirty, record=None):
            if record is not None and dirty == 'callee':
                for x in offset_reads(node):
                    record.append((x, 'read'))
            for ev in node_effects(node):
                if ev.kind == 'call':
                    cn = callee_name(ev.node)
                    if record is not None and dirty == 'callee' and cn in reads_offset and cn not in ('ensure', 'update_offset'):
                        record.append((ev.node, 'read'))
                    if cn == 'ensure':
                        if record is not None:
                            record.append((ev.node, dirty))
                        dirty = False
                    elif cn == 'update_offset':
                        dirty = False
                    elif cn in famnames and cn not in ('ensure', 'update_offset'):
                        # a printer called here makes its own requests
                        if record is not None and leaves_dirty.get('requests:' + cn):
                            record.append((ev.node, dirty))
                        dirty = 'callee' if leaves_dirty.get(cn) else False       # (the callee's last token, at a place only it knows)
                    elif cn in ('sprintf', 'strcpy', 'memcpy', 'strcat') and ev.node['args'] and any(
                            x.get('k') == 'ref' and x.get('d') in derived for x in walk(ev.node['args'][0])):
                        dirty = dirty or True
                elif ev.kind == 'store':
                    if is_mem(ev.lhs, 'offset'):
                        dirty = False
                    elif through_grant(ev.lhs):
                        dirty = dirty or True
                elif ev.kind == 'incdec' and is_mem(ev.lhs, 'offset'):
                    dirty = False
                elif ev.kind == 'incdec' and through_grant(ev.lhs):
                    dirty = dirty or True
            return dirty
        # `printed = print_x(..); ... if (printed) { update_offset(p); } return printed;`: the edge on which the flag that is going
        # to be returned is zero belongs to the failing outcome, whose buffer nobody reads
        flagvars = set()
        for r_ in cfg.returns():
            e_ = strip_casts(r_.expr) if r_.expr is not None else {}
            if e_.get('k') == 'ref' and e_.get('dk') == 'local' and u.ty(e_.get('ty0', e_['ty']))['c'] in ('int', 'bool'):
                flagvars.add(e_['d'])

        def refine_flag(nd, l, st):
            if nd.kind != 'branch' or l is None or l[0] not in ('T', 'F') or nd.expr is None:
                return st
            e_ = strip_casts(nd.expr)
            zero_on = 'F'
            while e_.get('k') == 'un' and e_['op'] == '!':
                zero_on = 'T' if zero_on == 'F' else 'F'
                e_ = strip_casts(e_['e'])
            pc_ = cmp_parts(e_)
            if pc_ is not None and pc_[2] == 0 and pc_[1] in ('==', '!='):
                if pc_[1] == '==':
                    zero_on = 'T' if zero_on == 'F' else 'F'
                e_ = strip_casts(pc_[0])
            if e_.get('k') == 'call' and callee_name(e_) in famnames and callee_name(e_) not in ('ensure', 'update_offset') and l[0] == zero_on:
                # the printer failed: what it left behind its offset is abandoned, the offset itself still ends the complete text
                return False
            if e_.get('k') == 'ref' and e_.get('d') in flagvars and l[0] == zero_on:
                # only when the flag is not assigned again before it is returned
                tgt = [y for (y, l2) in cfg.succ[nd.id] if l2 is l or l2 == l]
                reach_ = set()
                for y in tgt:
                    reach_ |= cfg.reachable(y) | {y}
                reassigned = any(ev.kind in ('store', 'incdec') and is_ref(ev.lhs) and strip_casts(ev.lhs)['d'] == e_['d']
                                 for m_ in reach_ for ev in node_effects(cfg.nodes[m_]))
                if not reassigned:
                    return 'failed'
            return st

        def join_(a, b):
            if a == 'failed':
                return b
            if b == 'failed':
                return a
            return 'callee' if 'callee' in (a, b) else (a or b)
        states = solve(cfg, False, lambda nd, st: (st if st == 'failed' else transfer(nd, st)), refine_flag, join_)
        sites = []
        for nd in cfg.nodes:
            if nd.id in states and states[nd.id] != 'failed':
                transfer(nd, states[nd.id], record=sites)
        # what matters is the state a *successful* call leaves: a failed printer makes its callers give up (TAB17), and
        # the buffer with it
        succ_dirty = False
        for r in cfg.returns():
            if r.expr is not None and (const_val(r.expr) == 0 or is_null_const(r.expr)):
                continue
            if r.id in states and states[r.id] != 'failed':
                succ_dirty = succ_dirty or bool(transfer(r, states[r.id]))
        leaves_dirty[fn.name] = succ_dirty
        leaves_dirty['requests:' + fn.name] = any(
            callee_name(c) == 'ensure' or leaves_dirty.get('requests:' + (callee_name(c) or '')) for c in fn.calls())
        for (c, dirty) in sites:
            if dirty == 'read':
                if R is not None:
                    R.ob('OUT8', fn, c, '->offset is read only when it covers everything written', False,
                         '%s is evaluated after a printer returned with its last token not yet accounted (no update_offset in '
                         'between): the text is taken to end where that token starts' % expr_str(c)[:50], key='stale-offset:%s' % expr_str(c)[:40])
                continue
            n += 1
            if R is None:
                continue
            R.ob('OUT8', fn, c, 'request %s is made with everything written so far accounted' % expr_str(c)[:50], not dirty,
                 'no unaccounted write can reach this request' if not dirty else
                 'bytes written through an earlier ensure() result are not yet covered by ->offset here: if the buffer has to be '
                 'copied to grow, they are lost', key='dirty:%s' % expr_str(c)[:50])
    return n


# ---- PRT1: the printer does not refuse what the parser accepts (nesting depth) ---------------------------------------------------

def prt1(units, R):
    """The parser refuses a container when `depth >= CJSON_NESTING_LIMIT` *before* entering it, so it builds trees with up to LIMIT
    nested containers and scalars inside the innermost one.  A depth test in the printing family may therefore only refuse where
    the parser would: in a function that goes on to increment the depth (a container printer), with the same or a weaker bound.
    A refusal by depth anywhere else (print_value, the leaf printers) rejects values the parser accepted.  The tree has no such
    test today; the rule is armed by a fixture."""
    u = units['cJSON.c']
    # the parser's bound
    limit = None
    from .bnd import parse_family
    try:
        pfam = parse_family(u)
    except AnalysisBroken:
        pfam = [f for f in u.function_list if f.name.startswith('parse_')]
    for pfn in pfam:
        if pfn.body is None:
            continue
        for b in pfn.cfg().nodes:
            if b.kind != 'branch':
                continue
            p = cmp_parts(b.expr)
            if p is not None and is_mem(p[0], 'depth') and p[1] in ('>=', '>'):
                v = p[2] if p[1] == '>=' else p[2] + 1
                limit = v if limit is None else min(limit, v)
    if limit is None:
        raise AnalysisBroken('PRT1: the nesting gate of the parser was not found')
    n = 0
    for fn in print_family(u):
        cfg = fn.cfg()
        incs = set()
        for m in cfg.nodes:
            for ev in node_effects(m):
                if ev.kind == 'incdec' and is_mem(ev.lhs, 'depth') and ev.delta > 0:
                    incs.add(m.id)
                if ev.kind == 'store' and is_mem(ev.lhs, 'depth') and ev.node['op'] == '+=':
                    incs.add(m.id)
        for b in cfg.nodes:
            if b.kind != 'branch':
                continue
            p = cmp_parts(b.expr)
            if p is None or not is_mem(p[0], 'depth') or p[1] not in ('>=', '>', '<', '<=', '==', '!='):
                continue
            # the edge on which the function can only fail
            for (y, lab) in cfg.succ[b.id]:
                if lab is None or lab[0] not in ('T', 'F'):
                    continue
                reach = cfg.reachable(y) | {y}
                rets = [r for r in cfg.returns() if r.id in reach]
                only_fails = bool(rets) and all(r.expr is not None and const_val(r.expr) == 0 for r in rets)
                if not only_fails:
                    continue
                n += 1
                op = p[1] if lab[0] == 'T' else {'>=': '<', '>': '<=', '<': '>=', '<=': '>', '==': '!=', '!=': '=='}[p[1]]
                # smallest depth refused
                first = p[2] if op == '>=' else (p[2] + 1 if op == '>' else 0)
                container = any(i in cfg.reachable(b.id) for i in incs)
                ok = container and op in ('>=', '>') and first >= limit
                R.ob('PRT1', fn, b.expr, 'a depth test in %s refuses only what the parser refuses' % fn.name, ok,
                     'container printer, refuses from depth %d on (parser: %d)' % (first, limit) if ok else
                     ('%s refuses at depth %s although the parser builds trees with values at depth %d%s' % (
                         fn.name, first if op in ('>=', '>') else 'values selected by %s' % expr_str(b.expr)[:30], limit,
                         '' if container else ' (scalars inside %d nested containers are at that depth and are printed by this function)' % limit)),
                     key='depthgate:%s' % fn.name)
    R.ob('PRT1', None, None, 'depth tests in the printing family examined', True, '%d refusing edges (parser bound %d)' % (n, limit),
         key='census', file='cJSON.c', line=0)
