"""TAB6: the UTF-16 escape decoder, decided over all code values.

utf16_literal_to_utf8 turns one or two 16-bit codes (the results of parse_hex4) into UTF-8.  Which codes are accepted
alone, which need a partner, which partner is accepted, which code point a pair denotes and which bytes come out are all
arithmetic on those two values - ranges, masks, shifts - and every refactoring spells them differently (range tests or
mask tests, inline or in a helper, macros or literals).

The rule follows every path of the function with
    c1, c2     the two codes as variables; for each the *set* of values (subset of 0..65535) still possible on the path,
    locals     as expressions over c1 / c2 (helpers that are straight-line are inlined; once a local depends on both codes it
               becomes the variable cp with its defining expression),
    outputs    the bytes stored through the output cursor as expressions, the cursor advance and the return value,
conditions on one variable split that variable's set by evaluating the condition for every value in it (the expressions
are compiled once), conditions the exploration knows nothing about (how much input is left, the `\\u` of the second half)
fork.  At the returns the sets and expressions are compared with the Unicode definitions for every value: the three
classes of first codes, the accepted second codes, the code point of all 1024 x 1024 pairs, the UTF-8 bytes of every
single code, and - because the byte expressions of the pair path are shifts and masks of cp, which makes each output bit
a copy of one input bit or a constant - the UTF-8 bytes of pairs on a basis of cp values (checked to be such expressions,
otherwise all values are evaluated).
"""
import re

from ..facts import AnalysisBroken, strip_casts, expr_str, const_val, callee_name, is_null_const, ASSIGN_OPS, CMP_OPS
from ..dataflow import access

ALL16 = frozenset(range(65536))


class _Unknown(Exception):
    pass


class Path(object):
    def __init__(self):
        self.env = {}          # decl id -> python source (over c1, c2, cp) | None (unknown)
        self.S = {'c1': None, 'c2': None}     # sets of values; None = variable not introduced yet
        self.cpdef = None      # source of cp over c1, c2
        self.cpconds = []      # (source over cp, truth)
        self.writes = {}       # position -> source
        self.advance = None    # source
        self.outp = {}         # local copies of the output cursor: decl id -> offset (int) from where the cursor stood
        self.hexcalls = 0
        self.steps = 0

    def copy(self):
        p = Path()
        p.env = dict(self.env)
        p.S = dict(self.S)
        p.cpdef = self.cpdef
        p.cpconds = list(self.cpconds)
        p.writes = dict(self.writes)
        p.advance = self.advance
        p.outp = dict(self.outp)
        p.hexcalls = self.hexcalls
        p.steps = self.steps
        return p


def _vars_in(src):
    return set(re.findall(r'\b(c1|c2|cp)\b', src))


class Decoder(object):
    def __init__(self, u, fn):
        self.u = u
        self.fn = fn
        self.cfg = fn.cfg()
        self.results = []       # (path, return source)
        self.cache = {}
        pp = [p for p in fn.params if u.ty(p['ty'])['s'].count('*') == 2]
        if len(pp) != 1:
            raise AnalysisBroken('TAB6: %s does not take one output cursor (unsigned char **)' % fn.name)
        self.outpp = pp[0]['d']

    # ---- expressions -> python source -----------------------------------------------------------------
    def mask_for(self, tid):
        t = self.u.ty(tid)
        if t['c'] in ('int', 'bool') and t.get('bits') and t.get('unsigned'):
            return (1 << t['bits']) - 1
        return None

    def src(self, e, path, depth=0):
        """python source of an integer expression, or raises _Unknown"""
        v = const_val(e)
        if v is not None:
            return repr(int(v))
        k = e.get('k')
        if k == 'cast':
            inner = self.src(e['e'], path, depth)
            m = self.mask_for(e['ty'])
            t = self.u.ty(e['ty'])
            if t['c'] == 'bool':
                return '(1 if (%s) else 0)' % inner
            if m is not None and m < (1 << 64) - 1:
                # widening casts of values that already fit need no mask; narrowing ones do
                return '((%s) & %d)' % (inner, m)
            return inner
        if k == 'ref':
            if e.get('dk') in ('local', 'param'):
                s = path.env.get(e['d'])
                if s is None:
                    raise _Unknown()
                return '(%s)' % s
            if e.get('dk') == 'enumc':
                return repr(e.get('val'))
            raise _Unknown()
        if k == 'un':
            op = e['op']
            if op == '!':
                return '(0 if (%s) else 1)' % self.src(e['e'], path, depth)
            if op == '-':
                return '(-(%s))' % self.src(e['e'], path, depth)
            if op == '+':
                return self.src(e['e'], path, depth)
            if op == '~':
                m = self.mask_for(e['ty']) or 0xFFFFFFFF
                return '((~(%s)) & %d)' % (self.src(e['e'], path, depth), m)
            raise _Unknown()
        if k == 'bin':
            op = e['op']
            if op in ('+', '-', '*', '&', '|', '^', '<<', '>>'):
                return '((%s) %s (%s))' % (self.src(e['l'], path, depth), op, self.src(e['r'], path, depth))
            if op in CMP_OPS:
                return '(1 if (%s) %s (%s) else 0)' % (self.src(e['l'], path, depth), op, self.src(e['r'], path, depth))
            if op == '&&':
                return '(1 if ((%s) and (%s)) else 0)' % (self.src(e['l'], path, depth), self.src(e['r'], path, depth))
            if op == '||':
                return '(1 if ((%s) or (%s)) else 0)' % (self.src(e['l'], path, depth), self.src(e['r'], path, depth))
            if op in ('/', '%'):
                return '((%s) %s (%s))' % (self.src(e['l'], path, depth), '//' if op == '/' else '%', self.src(e['r'], path, depth))
            raise _Unknown()
        if k == 'cond':
            return '((%s) if (%s) else (%s))' % (self.src(e['t'], path, depth), self.src(e['c'], path, depth), self.src(e['e'], path, depth))
        if k == 'call':
            cn = callee_name(e)
            if cn == 'parse_hex4':
                raise _Unknown()          # handled at the assignment
            h = self.u.functions.get(cn)
            if h is not None and h.static and depth < 3:
                return self.inline(h, [self.src(a, path, depth) for a in e['args']], depth + 1)
            raise _Unknown()
        raise _Unknown()

    def inline(self, h, args, depth):
        """a static helper whose body is declarations with initialisers and one return: its value as source"""
        sub = Path()
        for p, a in zip(h.params, args):
            sub.env[p['d']] = a
        cfg = h.cfg()
        nid = cfg.entry.id
        for _ in range(200):
            node = cfg.nodes[nid]
            if node.kind == 'decl':
                if 'init' in node.decl:
                    sub.env[node.decl['d']] = self.src(node.decl['init'], sub, depth)
            elif node.kind == 'stmt':
                e = strip_casts(node.expr)
                if e.get('k') == 'bin' and e['op'] == '=' and strip_casts(e['l']).get('k') == 'ref':
                    sub.env[strip_casts(e['l'])['d']] = self.src(e['r'], sub, depth)
                else:
                    raise _Unknown()
            elif node.kind == 'return':
                if node.expr is None:
                    raise _Unknown()
                return self.src(node.expr, sub, depth)
            elif node.kind in ('branch', 'switch'):
                raise _Unknown()
            succ = cfg.succ[nid]
            if len(succ) != 1:
                raise _Unknown()
            nid = succ[0][0]
        raise _Unknown()

    def fn_of(self, source, names):
        key = (source, tuple(names))
        f = self.cache.get(key)
        if f is None:
            f = eval('lambda %s: %s' % (', '.join(names), source), {'__builtins__': {}})
            self.cache[key] = f
        return f

    # ---- conditions -----------------------------------------------------------------------------------
    def take(self, path, cond, truth):
        """path after `cond` evaluated to truth; None if impossible"""
        try:
            s = self.src(cond, path)
        except _Unknown:
            return path.copy()         # nothing known: both ways possible
        vs = _vars_in(s)
        if not vs:
            v = self.fn_of(s, [])()
            return path.copy() if bool(v) == truth else None
        if vs == {'cp'}:
            p = path.copy()
            p.cpconds.append((s, truth))
            return p
        if len(vs) == 1:
            v = next(iter(vs))
            f = self.fn_of(s, [v])
            cur = path.S[v]
            keep = frozenset(x for x in cur if bool(f(x)) == truth)
            if not keep:
                return None
            p = path.copy()
            p.S[v] = keep
            return p
        # both codes in one condition: keep it symbolic through cp is not possible; treat as unknown (both ways)
        return path.copy()

    # ---- exploration ----------------------------------------------------------------------------------
    def run(self):
        start = Path()
        for p in self.fn.params:
            start.env[p['d']] = None
        work = [(self.cfg.entry.id, start)]
        total = 0
        while work:
            nid, path = work.pop()
            total += 1
            path.steps += 1
            if total > 20000 or path.steps > 600:
                raise AnalysisBroken('TAB6: exploration of %s does not finish' % self.fn.name)
            node = self.cfg.nodes[nid]
            if nid == self.cfg.exit.id:
                continue
            if node.kind == 'return':
                try:
                    r = self.src(node.expr, path) if node.expr is not None else None
                except _Unknown:
                    r = None
                self.results.append((path, r, node))
                continue
            if node.kind == 'decl':
                d = node.decl
                path = path.copy()
                op0 = self.out_position(d['init'], path) if 'init' in d else None
                if op0 is not None:
                    path.outp[d['d']] = op0
                else:
                    path.env[d['d']] = self.value_for(d.get('init'), path, d['d']) if 'init' in d else None
            elif node.kind == 'stmt':
                path = self.statement(node.expr, path.copy())
            if node.kind == 'branch':
                for (y, l) in self.cfg.succ[nid]:
                    if l is None:
                        continue
                    p2 = self.take(path, l[1], l[0] == 'T')
                    if p2 is not None:
                        work.append((y, p2))
                continue
            if node.kind == 'switch':
                raise AnalysisBroken('TAB6: switch in %s is not supported' % self.fn.name)
            for (y, _l) in self.cfg.succ[nid]:
                work.append((y, path))
        return self.results

    def concrete(self, e, path):
        try:
            s0 = self.src(e, path)
        except _Unknown:
            return None
        if _vars_in(s0):
            return None
        return self.fn_of(s0, [])()

    def out_position(self, e, path):
        """offset (int) when e designates a position relative to the output cursor: *pp, local, local + n, *pp + n"""
        e = strip_casts(e)
        if e.get('k') == 'un' and e['op'] == '*' and strip_casts(e['e']).get('k') == 'ref' and strip_casts(e['e'])['d'] == self.outpp:
            return 0
        if e.get('k') == 'ref' and e.get('d') in path.outp:
            return path.outp[e['d']]
        if e.get('k') == 'bin' and e['op'] in ('+', '-'):
            b = self.out_position(e['l'], path)
            k = self.concrete(e['r'], path)
            if b is not None and k is not None:
                return b + (k if e['op'] == '+' else -k)
        return None

    def value_for(self, e, path, target):
        if e is None:
            return None
        e0 = strip_casts(e)
        if e0.get('k') == 'call' and callee_name(e0) == 'parse_hex4':
            path.hexcalls += 1
            name = 'c%d' % path.hexcalls
            if name not in path.S:
                raise AnalysisBroken('TAB6: more than two parse_hex4 calls on one path of %s' % self.fn.name)
            path.S[name] = ALL16
            return name
        try:
            s = self.src(e, path)
        except _Unknown:
            return None
        vs = _vars_in(s)
        if 'c1' in vs and 'c2' in vs:
            if path.cpdef is not None and path.cpdef != s:
                raise AnalysisBroken('TAB6: two different values depend on both codes in %s' % self.fn.name)
            path.cpdef = s
            return 'cp'
        return s

    def statement(self, e, path):
        e = strip_casts(e)
        if e.get('k') == 'bin' and e['op'] in ASSIGN_OPS:
            l = strip_casts(e['l'])
            if l.get('k') == 'ref' and l.get('dk') in ('local', 'param') and e['op'] == '=':
                op0 = self.out_position(e['r'], path)
                if op0 is not None:
                    path.outp[l['d']] = op0      # a local copy of the output cursor
                    return path
            if l.get('k') == 'ref' and l.get('d') in path.outp and e['op'] in ('+=', '-='):
                k = self.concrete(e['r'], path)
                if k is None:
                    raise AnalysisBroken('TAB6: %s: output cursor moved by an unknown amount' % self.fn.where(e))
                path.outp[l['d']] += k if e['op'] == '+=' else -k
                return path
            if l.get('k') == 'ref' and l.get('dk') in ('local', 'param'):
                if e['op'] == '=':
                    path.env[l['d']] = self.value_for(e['r'], path, l['d'])
                else:
                    old = path.env.get(l['d'])
                    try:
                        r = self.src(e['r'], path)
                    except _Unknown:
                        r = None
                    path.env[l['d']] = None if (old is None or r is None) else '((%s) %s (%s))' % (old, e['op'][:-1], r)
                    m = self.mask_for(l['ty'])
                    if path.env[l['d']] is not None and m is not None and m <= 0xFFFF:
                        path.env[l['d']] = '((%s) & %d)' % (path.env[l['d']], m)
                return path
            # stores through the output cursor: (*pp)[k] = v ; *pp += n
            if l.get('k') == 'un' and l['op'] == '*' and strip_casts(l['e']).get('k') == 'ref' and strip_casts(l['e'])['d'] == self.outpp:
                if e['op'] == '+=':
                    try:
                        path.advance = self.src(e['r'], path)
                    except _Unknown:
                        path.advance = '?'
                    return path
                if e['op'] == '=':
                    # *pp = local + n: the local stood `offset` bytes after the cursor
                    op0 = self.out_position(e['r'], path)
                    if op0 is not None:
                        path.advance = repr(op0)
                        return path
                raise AnalysisBroken('TAB6: %s re-points the output cursor' % self.fn.where(e))
            acc = access(l)
            if acc is not None and strip_casts(acc[0]).get('k') == 'ref' and strip_casts(acc[0]).get('d') in path.outp:
                d0 = strip_casts(acc[0])['d']
                idx = acc[1] if isinstance(acc[1], int) else self.concrete(acc[1], path)
                if idx is None or path.advance is not None:
                    raise AnalysisBroken('TAB6: %s: output position is not a known number' % self.fn.where(e))
                try:
                    path.writes[path.outp[d0] + idx] = self.src(e['r'], path)
                except _Unknown:
                    path.writes[path.outp[d0] + idx] = '?'
                inner = strip_casts(l['e']) if l.get('k') == 'un' and l['op'] == '*' else None
                if inner is not None and inner.get('k') == 'un' and inner['op'] == 'post++':
                    path.outp[d0] += 1
                return path
            if acc is not None:
                b = strip_casts(acc[0])
                if b.get('k') == 'un' and b['op'] == '*' and strip_casts(b['e']).get('k') == 'ref' and strip_casts(b['e'])['d'] == self.outpp:
                    idx = acc[1]
                    if not isinstance(idx, int):
                        try:
                            idx = self.fn_of(self.src(idx, path), [])() if not _vars_in(self.src(idx, path)) else None
                        except _Unknown:
                            idx = None
                    if idx is None or path.advance is not None:
                        raise AnalysisBroken('TAB6: %s: output position is not a known number' % self.fn.where(e))
                    try:
                        path.writes[idx] = self.src(e['r'], path)
                    except _Unknown:
                        path.writes[idx] = '?'
                    return path
            return path
        if e.get('k') == 'un' and e['op'] in ('post++', 'post--', 'pre++', 'pre--'):
            t = strip_casts(e['e'])
            if t.get('k') == 'ref' and path.env.get(t['d']) is not None:
                path.env[t['d']] = '((%s) %s 1)' % (path.env[t['d']], '+' if '++' in e['op'] else '-')
                m = self.mask_for(t['ty'])
                if m is not None and m <= 0xFFFF:
                    path.env[t['d']] = '((%s) & %d)' % (path.env[t['d']], m)
            return path
        if e.get('k') == 'bin' and e['op'] == ',':
            path = self.statement(e['l'], path)
            return self.statement(e['r'], path)
        return path


def _ranges(s):
    s = sorted(s)
    out = []
    for v in s:
        if out and v == out[-1][1] + 1:
            out[-1][1] = v
        else:
            out.append([v, v])
    return ', '.join('%04X' % a if a == b else '%04X-%04X' % (a, b) for a, b in out[:6]) + (' ...' if len(out) > 6 else '')


def _utf8(cp):
    if cp < 0x80:
        return [cp]
    if cp < 0x800:
        return [0xC0 | (cp >> 6), 0x80 | (cp & 0x3F)]
    if cp < 0x10000:
        return [0xE0 | (cp >> 12), 0x80 | ((cp >> 6) & 0x3F), 0x80 | (cp & 0x3F)]
    return [0xF0 | (cp >> 18), 0x80 | ((cp >> 12) & 0x3F), 0x80 | ((cp >> 6) & 0x3F), 0x80 | (cp & 0x3F)]


_BITWISE = re.compile(r'^[\s()\d&|]*$')


def _is_bitwise_of(src, var):
    """the expression uses only var, constants, >> << by constants, & and | (so every output bit is one input bit or a constant)"""
    t = src.replace(var, ' ')
    t = re.sub(r'>>\s*\(?\d+\)?', ' ', t)
    t = re.sub(r'<<\s*\(?\d+\)?', ' ', t)
    return bool(_BITWISE.match(t))


def tab6(units, R):
    import os
    u = units['cJSON.c']
    fn = u.fn('utf16_literal_to_utf8')
    dec = Decoder(u, fn)
    results = dec.run()
    ok_paths = []
    fail1, fail2 = set(), set()
    for (p, r, node) in results:
        rv = None
        if r is not None and not _vars_in(r):
            rv = dec.fn_of(r, [])()
        if rv == 0:
            # a failing return: remember which codes can end here
            if p.S['c1'] is not None and p.S['c2'] is None:
                fail1 |= p.S['c1']
            continue
        if rv is None:
            raise AnalysisBroken('TAB6: return value at line %d is not a known number' % node.line)
        ok_paths.append((p, rv, node))
    if not ok_paths:
        raise AnalysisBroken('TAB6: no successful path through utf16_literal_to_utf8')
    singles = [(p, rv, n) for (p, rv, n) in ok_paths if p.S['c2'] is None]
    pairs = [(p, rv, n) for (p, rv, n) in ok_paths if p.S['c2'] is not None]
    # ---- first codes -----------------------------------------------------------------------------
    single_set = frozenset().union(*[p.S['c1'] for (p, _r, _n) in singles]) if singles else frozenset()
    pair_set = frozenset().union(*[p.S['c1'] for (p, _r, _n) in pairs]) if pairs else frozenset()
    want_single = frozenset(range(1, 0xD800)) | frozenset(range(0xE000, 0x10000))
    want_pair = frozenset(range(0xD800, 0xDC00))
    R.ob('TAB6', fn, None, 'codes accepted on their own are 0001-D7FF and E000-FFFF', single_set == want_single,
         'exactly those 63487 values' if single_set == want_single else 'wrongly accepted alone: %s; wrongly refused: %s' % (
             _ranges(single_set - want_single) or '-', _ranges(want_single - single_set - pair_set) or '-'), key='first:single')
    R.ob('TAB6', fn, None, 'codes that need a second half are exactly the high surrogates D800-DBFF', pair_set == want_pair,
         'exactly those 1024 values' if pair_set == want_pair else 'treated as first half: %s' % (_ranges(pair_set ^ want_pair)), key='first:pair')
    both = single_set & pair_set
    R.ob('TAB6', fn, None, 'no code is both complete on its own and the first half of a pair', not both, _ranges(both) or 'disjoint', key='first:disjoint')
    # ---- second codes ----------------------------------------------------------------------------
    sec = frozenset().union(*[p.S['c2'] for (p, _r, _n) in pairs]) if pairs else frozenset()
    want_sec = frozenset(range(0xDC00, 0xE000))
    R.ob('TAB6', fn, None, 'the second half of a pair is accepted exactly when it is a low surrogate DC00-DFFF', sec == want_sec,
         'exactly those 1024 values' if sec == want_sec else 'wrongly accepted: %s; wrongly refused: %s' % (
             _ranges(sec - want_sec) or '-', _ranges(want_sec - sec) or '-'), key='second')
    # ---- lengths consumed ------------------------------------------------------------------------
    R.ob('TAB6', fn, None, 'a single code consumes 6 input bytes, a pair 12', all(rv == 6 for (_p, rv, _n) in singles) and
         all(rv == 12 for (_p, rv, _n) in pairs), 'returns %s / %s' % (sorted({rv for (_p, rv, _n) in singles}), sorted({rv for (_p, rv, _n) in pairs})),
         key='consumed')
    # ---- bytes of single codes -------------------------------------------------------------------
    bad = None
    n_single = 0
    for (p, rv, node) in singles:
        if '?' in p.writes.values() or p.advance in (None, '?') or _vars_in(p.advance or ''):
            raise AnalysisBroken('TAB6: output of the path returning at line %d is not known' % node.line)
        adv = dec.fn_of(p.advance, [])()
        fs = {k: dec.fn_of(s, ['c1']) for k, s in p.writes.items()}
        for c in p.S['c1']:
            n_single += 1
            got = [fs[i](c) & 0xFF if i in fs else None for i in range(adv)]
            if sorted(fs) != list(range(adv)) or got != _utf8(c):
                bad = bad or (c, got, adv)
    R.ob('TAB6', fn, None, 'every code accepted on its own is written as the UTF-8 encoding of that code point, cursor stepped over exactly those bytes',
         bad is None, '%d values' % n_single if bad is None else 'U+%04X is written as %s (cursor += %d), UTF-8 is %s' % (
             bad[0], [('%02X' % x if x is not None else '--') for x in bad[1]], bad[2], ['%02X' % x for x in _utf8(bad[0])]), key='utf8:single')
    # ---- pairs -----------------------------------------------------------------------------------
    badcp = None
    n_pairs = 0
    badb = None
    exhaustive = os.environ.get('CJSA_TIER') == 'thorough'
    formula_ok = {}
    covered = []       # feasible intervals of supplementary code points over all successful pair paths
    LO, HI = 0x10000, 0x10FFFF

    def feasible_intervals(conds):
        """sub-intervals of [LO, HI] on which all (source over cp, truth) conditions hold; conditions are evaluated at
        every constant mentioned (+-1), between which a comparison with a constant cannot change"""
        cuts = {LO, HI + 1}
        for (s_, _t) in conds:
            for x in re.findall(r'\b\d+\b', s_):
                for d in (-1, 0, 1, 2):
                    c = int(x) + d
                    if LO < c <= HI:
                        cuts.add(c)
        cuts = sorted(cuts)
        out = []
        for a_, b_ in zip(cuts, cuts[1:]):
            if all(bool(dec.fn_of(s_, ['cp'])(a_)) == t and bool(dec.fn_of(s_, ['cp'])(b_ - 1)) == t for (s_, t) in conds):
                if out and out[-1][1] == a_ - 1:
                    out[-1][1] = b_ - 1
                else:
                    out.append([a_, b_ - 1])
        return out
    for (p, rv, node) in pairs:
        if p.cpdef is None:
            raise AnalysisBroken('TAB6: the pair path returning at line %d does not combine the two codes' % node.line)
        key = (p.cpdef, p.S['c1'], p.S['c2'])
        if key not in formula_ok:
            f = dec.fn_of(p.cpdef, ['c1', 'c2'])
            S1 = sorted(p.S['c1'] & want_pair)
            S2 = sorted(p.S['c2'] & want_sec)
            res = None
            for a in S1:
                base = 0x10000 + ((a - 0xD800) << 10) - 0xDC00
                for b in S2:
                    if f(a, b) != base + b:
                        res = (a, b, f(a, b))
                        break
                if res:
                    break
            n_pairs += len(S1) * len(S2)
            formula_ok[key] = res
        if formula_ok[key] is not None:
            badcp = badcp or formula_ok[key]
            continue
        ivs = feasible_intervals(p.cpconds)
        if not ivs:
            continue          # this combination of range tests cannot occur for a supplementary code point
        covered += ivs
        if '?' in p.writes.values() or p.advance in (None, '?') or _vars_in(p.advance or ''):
            raise AnalysisBroken('TAB6: output of the pair path returning at line %d is not known' % node.line)
        adv = dec.fn_of(p.advance, [])()
        if sorted(p.writes) != list(range(adv)) or adv != 4:
            badb = badb or ('a pair is written as %d byte(s) at positions %s' % (adv, sorted(p.writes)))
            continue
        fs = {k: dec.fn_of(s_, ['cp']) for k, s_ in p.writes.items()}
        whole = ivs == [[LO, HI]]
        if whole and all(_is_bitwise_of(s_, 'cp') for s_ in p.writes.values()) and not exhaustive:
            probes = [0x10000, 0x10FFFF] + [0x10000 | (1 << i) for i in range(16)] + [0x100000, 0x100000 | 0xFFFF] + [1 << i for i in range(21)] + [0]
        else:
            probes = [c for (a_, b_) in ivs for c in range(a_, b_ + 1)]
        for c in probes:
            got = [fs[i](c) & 0xFF for i in range(4)]
            want = [0xF0 | ((c >> 18) & 7), 0x80 | ((c >> 12) & 0x3F), 0x80 | ((c >> 6) & 0x3F), 0x80 | (c & 0x3F)]
            if got != want:
                badb = badb or 'U+%X is written as %s, UTF-8 is %s' % (c, ['%02X' % x for x in got], ['%02X' % x for x in want])
                break
    if badcp is None and pairs:
        covered.sort()
        reach = LO
        for (a_, b_) in covered:
            if a_ <= reach:
                reach = max(reach, b_ + 1)
        if reach <= HI:
            badb = badb or 'pairs denoting U+%X and above are refused or not written' % reach
    R.ob('TAB6', fn, None, 'a surrogate pair denotes 0x10000 + (high - D800) * 0x400 + (low - DC00)', badcp is None,
         'all %d pairs' % n_pairs if badcp is None else '%04X %04X gives U+%X, should be U+%X' % (
             badcp[0], badcp[1], badcp[2], 0x10000 + ((badcp[0] - 0xD800) << 10) + (badcp[1] - 0xDC00)), key='pair:codepoint')
    R.ob('TAB6', fn, None, 'every pair is written as the four-byte UTF-8 encoding of its code point', badb is None and bool(pairs),
         'byte expressions are shifts and masks of the code point: checked on a basis of code points (all of them in the thorough tier)'
         if badb is None else str(badb)[:200], key='utf8:pair')
    R.floor('TAB6', 'successful paths through the UTF-16 decoder', len(ok_paths), 2)
