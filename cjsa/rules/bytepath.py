"""Byte-transducer path exploration.

The character-level routines of cJSON (string escaping, JSON-pointer encoding/decoding, pointer comparison, hex digits)
are loops that look at the byte(s) under a cursor and, depending on them, write bytes through another cursor and move
both.  Which bytes get which treatment is the "table" the properties talk about, but the table is spread over
conditions, switches, ?: expressions and helper locals, and every refactoring spells it differently.

This module recovers the table from the code instead of from its spelling: an abstract interpreter over the function's
CFG whose state is
    - for every char cursor its position (root, displacement),
    - for every position read so far the *set of byte values* (subset of 0..255) it can still have on this path,
    - for scalar locals a constant, "initial + delta", or "copy of the byte at position P",
    - the bytes written so far (position -> constant / copy of an input position / formatted text).
Every path of a *segment* is followed separately; a segment starts at the function entry or at a loop head and ends at
the next loop head or at a return, where everything is forgotten (positions are re-based, byte sets reset to 0..255),
so each loop iteration is analysed from an arbitrary state.  Conditions that depend on one position split that
position's byte set; conditions that cannot be evaluated fork without splitting.

The result is a list of Segment objects - (byte constraints, cursor advances, writes, scalar deltas, how it ended) - over
which the TAB rules state their obligations for all 256 byte values.  Nothing is executed: conditions are evaluated on
value sets, and a segment describes every run that takes that path.
"""
import re

from ..facts import AnalysisBroken, walk, strip_casts, expr_str, const_val, CMP_OPS, ASSIGN_OPS, callee_name
from ..dataflow import access, node_effects

ALL = frozenset(range(256))


def _tolower(v):
    return v + 32 if 65 <= v <= 90 else v


def _toupper(v):
    return v - 32 if 97 <= v <= 122 else v


# the "C" locale, which is what the library is specified against (cJSON never calls setlocale)
_CTYPE_PREDICATES = {
    'isdigit': lambda c: 48 <= c <= 57, 'isupper': lambda c: 65 <= c <= 90, 'islower': lambda c: 97 <= c <= 122,
    'isalpha': lambda c: 65 <= c <= 90 or 97 <= c <= 122, 'isalnum': lambda c: 48 <= c <= 57 or 65 <= c <= 90 or 97 <= c <= 122,
    'isxdigit': lambda c: 48 <= c <= 57 or 65 <= c <= 70 or 97 <= c <= 102, 'isspace': lambda c: c in (9, 10, 11, 12, 13, 32),
    'isblank': lambda c: c in (9, 32), 'iscntrl': lambda c: c < 32 or c == 127, 'isprint': lambda c: 32 <= c <= 126,
    'isgraph': lambda c: 33 <= c <= 126, 'ispunct': lambda c: 33 <= c <= 126 and not (48 <= c <= 57 or 65 <= c <= 90 or 97 <= c <= 122),
}
# bit of each class in glibc's table on a little-endian target (_ISbit)
_GLIBC_BITS = {'isupper': 256, 'islower': 512, 'isalpha': 1024, 'isdigit': 2048, 'isxdigit': 4096, 'isspace': 8192, 'isprint': 16384,
               'isgraph': 32768, 'isblank': 1, 'iscntrl': 2, 'ispunct': 4, 'isalnum': 8}


def _is_ctype_table(b):
    b = strip_casts(b)
    if b.get('k') == 'un' and b['op'] == '*':
        c = strip_casts(b['e'])
        if c.get('k') == 'call' and callee_name(c) in ('__ctype_b_loc', '__ctype_tolower_loc', '__ctype_toupper_loc'):
            return callee_name(c)
    return None


def _ctype_value(table, x):
    c = x & 255
    if table == '__ctype_tolower_loc':
        return _tolower(c) if 0 <= x <= 255 else x
    if table == '__ctype_toupper_loc':
        return _toupper(c) if 0 <= x <= 255 else x
    return sum(bit for name, bit in _GLIBC_BITS.items() if 0 <= x <= 255 and _CTYPE_PREDICATES[name](c))


def access_is_load(e):
    return e.get('k') == 'un' and e.get('op') == '*'


class Segment(object):
    def __init__(self):
        self.start = None      # 'entry' | loop-head node id
        self.end = None        # ('head', id) | ('return', value) | ('exit',)
        self.B = {}            # (root, axis) -> frozenset of byte values, positions relative to the segment start
        self.pos = {}          # cursor name -> (root, disp) at the end
        self.start_root = {}   # cursor name -> root at the start
        self.writes = []       # (root, axis, val, cursor written through) in program order; val: ('k', v) | ('in', root, axis) | ('fmt', bytes, [vals]) | None
        self.vals = {}         # scalar local name -> ('k', v) | ('d', delta) | ('in', root, axis) | None
        self.rel = []          # (expr, truth, state, load positions) of conditions taken that could not be decided
        self.line = 0
        self.end_node = None
        self.st = None
        self.readers = set()   # cursors a byte was read through

    # A stream is what a function reads or writes sequentially through: a cursor (name), or a cursor indexed by a counter
    # ((name, counter)): its position is cursor + counter, and it advances when either does.
    def root_of(self, stream):
        if isinstance(stream, tuple):
            return ('ix', self.start_root.get(stream[0]), stream[1])
        return self.start_root.get(stream)

    def adv(self, cursor):
        """How far the stream moved in this segment (None when it was re-pointed)."""
        if isinstance(cursor, tuple):
            a = self.adv(cursor[0])
            dv = self.vals.get(cursor[1])
            return a + dv[1] if (a is not None and dv is not None and dv[0] == 'd') else None
        p = self.pos.get(cursor)
        if p is None or p[0] != self.start_root.get(cursor) or p[1] is None:
            return None
        return p[1]

    def bytes_at(self, cursor, axis=0):
        r = self.root_of(cursor)
        return self.B.get((r, axis), ALL)

    def constrained(self, cursor):
        r = self.root_of(cursor)
        return {a: v for (rr, a), v in self.B.items() if rr == r and v != ALL}

    def writes_through(self, cursor):
        r = self.root_of(cursor)
        return [(a, v) for (rr, a, v, _c) in self.writes if rr == r]

    def __repr__(self):
        return 'Seg(%s->%s B=%s pos=%s w=%s vals=%s)' % (
            self.start, self.end, {k: (sorted(v) if len(v) < 6 else '#%d' % len(v)) for k, v in self.B.items() if v != ALL},
            self.pos, self.writes, {k: v for k, v in self.vals.items() if v not in (None, ('d', 0))})


class _St(object):
    __slots__ = ('nid', 'cur', 'B', 'vals', 'over', 'truth', 'writes', 'rel', 'start', 'start_root', 'fresh', 'readers')

    def copy(self):
        s = _St()
        s.fresh = False
        s.nid = self.nid
        s.cur = dict(self.cur)
        s.B = dict(self.B)
        s.vals = dict(self.vals)
        s.over = dict(self.over)
        s.truth = dict(self.truth)
        s.writes = list(self.writes)
        s.rel = list(self.rel)
        s.start = self.start
        s.start_root = dict(self.start_root)
        s.readers = self.readers
        return s

    def sig(self):
        return (self.nid, tuple(sorted(self.cur.items(), key=repr)), tuple(sorted(self.B.items(), key=repr)),
                tuple(sorted(self.vals.items(), key=repr)), tuple(sorted(self.over.items(), key=repr)),
                tuple(sorted(self.truth.items())), tuple(map(repr, self.writes)),
                tuple((r[0].get('id'), r[1]) for r in self.rel), self.start)


class Explorer(object):
    def __init__(self, u, fn, max_steps=200000, assume=None):
        self.assume = dict(assume or {})     # scalar parameter name -> value it is taken to have (one run per hypothesis)
        self.u = u
        self.fn = fn
        self.cfg = fn.cfg()
        self.max_steps = max_steps
        self.heads = {n.id: n for n in self.cfg.nodes if n.kind == 'nop' and n.name == 'loop-head'}
        self._loop_info = None
        self.cursors = {}     # decl id -> name
        self.pcursors = {}    # decl id of a char** parameter -> '*name'
        self.scalars = {}     # decl id -> name
        for d in list(fn.params) + list(fn.locals()):
            t = u.ty(d['ty'])
            if t['c'] == 'ptr' and 'char' in t['s'] and t['s'].count('*') == 1:
                self.cursors[d['d']] = d['n']
            elif t['c'] == 'ptr' and 'char' in t['s'] and t['s'].count('*') == 2 and d in fn.params:
                self.pcursors[d['d']] = '*' + d['n']        # the caller's cursor behind a char** parameter
            elif t['c'] in ('int', 'enum', 'bool'):
                self.scalars[d['d']] = d['n']
        self.param_ids = {p['d'] for p in fn.params}
        self.assigned_scalars = set()
        for x in fn.nodes():
            t = None
            if x.get('k') == 'bin' and x['op'] in ASSIGN_OPS:
                t = strip_casts(x['l'])
            elif x.get('k') == 'un' and x['op'] in ('post++', 'post--', 'pre++', 'pre--', '&'):
                t = strip_casts(x['e'])
            if t is not None and t.get('k') == 'ref' and t.get('d') in self.scalars:
                self.assigned_scalars.add(self.scalars[t['d']])
        self.segments = []
        self.notes = []
        self.helper_cache = {}
        self.exvals = {}
        self.tables = {}      # name of a const char array with a literal initialiser -> its bytes (terminator included)
        self.tables2 = {}     # name of a const two-dimensional array of constants -> rows
        self.table_fields = {}   # name of a const array of records -> {field: column}
        self.const_scalars = {}   # decl id of a const integer object with a constant initialiser -> value
        for g in list(u.globals) + [d for (_f, d) in u.static_locals()]:
            t = u.ty(g['ty'])
            if t['c'] == 'array' and 'init' in g and (g.get('const') or t.get('const')):
                ini = strip_casts(g['init'])
                tb = None
                if ini.get('k') == 'str':
                    tb = list(ini['bytes'])
                elif ini.get('k') == 'initlist' and all(const_val(i) is not None for i in ini['inits']):
                    tb = [const_val(i) & 255 for i in ini['inits']]
                elif ini.get('k') == 'initlist' and ini['inits'] and all(
                        strip_casts(r).get('k') == 'initlist' and all(const_val(c) is not None for c in strip_casts(r)['inits'])
                        for r in ini['inits']):
                    # rows of constants: T[i][j], or T[i].field for rows that are records (columns by field position)
                    self.tables2[g['n']] = [[const_val(c) & 255 for c in strip_casts(r)['inits']] for r in ini['inits']]
                    base = re.sub(r'\[[^\]]*\]', '', t['s'])
                    base = ' '.join(re.sub(r'\bconst\b|\bstruct\b', ' ', base).split())
                    rec = u.records.get(base)
                    if rec is None:
                        for rr in u.raw['records']:
                            if rr['name'] == base:
                                rec = rr
                    if rec is not None:
                        self.table_fields[g['n']] = {f['n']: i for i, f in enumerate(rec['fields'])}
                if tb is not None and t.get('count') is not None:
                    tb = (tb + [0] * t['count'])[:t['count']]       # the terminator of a literal and trailing zero-initialised elements
                    self.tables[g['n']] = tb
            elif t['c'] in ('int', 'bool') and 'init' in g and (g.get('const') or t.get('const')) and const_val(g['init']) is not None:
                self.const_scalars[g['d']] = const_val(g['init'])

    # ---- positions -----------------------------------------------------------------------------------
    def cursor_of(self, e):
        e = strip_casts(e)
        if e.get('k') == 'un' and e['op'] in ('post++', 'post--', 'pre++', 'pre--'):
            e = strip_casts(e['e'])
        if e.get('k') == 'ref' and e.get('d') in self.cursors:
            return self.cursors[e['d']]
        if e.get('k') == 'un' and e['op'] == '*' and strip_casts(e['e']).get('k') == 'ref' and strip_casts(e['e']).get('d') in self.pcursors:
            return self.pcursors[strip_casts(e['e'])['d']]
        return None

    @staticmethod
    def stream_of(cursor, p):
        """the stream a position read/written through `cursor` belongs to: the cursor itself, or (cursor, counter)"""
        if p is not None and isinstance(p[0], tuple) and p[0] and p[0][0] == 'ix':
            return (cursor, p[0][2])
        return cursor

    def pos_of(self, x, st):
        """(root, axis) designated by the memory lvalue x, or None."""
        acc = access(x)
        if acc is None:
            return None
        c = self.cursor_of(acc[0])
        if c is None:
            return None
        p = st.cur.get(c)
        if p is None or p[1] is None:
            return None
        idx = acc[1]
        if not isinstance(idx, int) and idx.get('k') == 'un' and idx.get('op') in ('post++', 'post--', 'pre++', 'pre--'):
            idx = strip_casts(idx['e'])      # p[i++]: the step is deferred (post) or already applied (pre): the counter's value now
        if not isinstance(idx, int):
            iv = self.ev(idx, st, {})
            if iv is None:
                # cursor[counter + k]: a position relative to cursor + <the counter's value at the start of the segment>
                n = self.delta_base(idx)
                v = self.value_of(idx, st, {}) if n is not None else None
                if v is not None and v[0] == 'd':
                    return (('ix', p[0], n), p[1] + v[1])
                return None
            idx = iv
        return (p[0], p[1] + idx)

    def is_pointer(self, e):
        t = self.u.ty(strip_casts(e).get('ty0', strip_casts(e).get('ty'))) if strip_casts(e).get('ty') is not None else None
        t2 = self.u.ty(e.get('ty')) if e.get('ty') is not None else None
        return (t is not None and t['c'] in ('ptr', 'array')) or (t2 is not None and t2['c'] == 'ptr')

    def table_pos(self, x, st, subst=None, loadpos=None):
        """(table, index) when the lvalue x designates an element of a constant table by name: T[i]  (the index may be a byte of
        the input: T[*input_pointer], evaluated under the byte values fixed in subst)"""
        acc = access(x)
        if acc is None:
            return None
        b = strip_casts(acc[0])
        if b.get('k') == 'ref' and b.get('n') in self.tables and b.get('dk') in ('global', 'slocal'):
            idx = acc[1]
            if not isinstance(idx, int):
                idx = self.ev(idx, st, subst or {}, loadpos)
            if idx is None:
                return None
            return (b['n'], idx)
        return None

    def table_search(self, rhs, st, loadpos):
        """strchr(T, <byte>) / memchr(T, <byte>, n) over a constant table: [(state, pointer value)] with the state split by the
        position found (the terminator of T is found by strchr for a zero byte, as in C), or None when rhs is not such a search."""
        r = strip_casts(rhs)
        if r.get('k') == 'cond':
            t = self.truth_of(r['c'], st)
            if t is None:
                out = []
                for tv in (True, False):
                    s2 = self.refine(r['c'], tv, st, loadpos)
                    if s2 is None:
                        continue
                    s2.truth[strip_casts(r['c']).get('id')] = tv
                    sub = self.table_search(r['t'] if tv else r['e'], s2, loadpos)
                    if sub is None:
                        pv = self.pointer_value(r['t'] if tv else r['e'], s2)
                        if pv is None:
                            return None
                        sub = [(s2, pv)]
                    out += sub
                return out
            return self.table_search(r['t'] if t else r['e'], st, loadpos)
        if r.get('k') != 'call' or callee_name(r) not in ('strchr', 'memchr', '__builtin_strchr', '__builtin_memchr') or len(r['args']) < 2:
            return None
        tv = self.pointer_value(r['args'][0], st)
        if tv is None or tv[0][0] != 'tbl' or tv[1] is None:
            return None
        tb = self.tables[tv[0][1]][tv[1]:]
        if callee_name(r) in ('memchr', '__builtin_memchr'):
            n = self.ev(r['args'][2], st, {}, loadpos) if len(r['args']) > 2 else None
            if n is None or n > len(tb):
                return None
            hay = tb[:n]
        else:
            if 0 not in tb:
                return None
            hay = tb[:tb.index(0) + 1]
        d = self.deps(r['args'][1], st, loadpos)
        if None in d or len(d) > 1:
            return None
        if not d:
            v = self.ev(r['args'][1], st, {}, loadpos)
            if v is None:
                return None
            v &= 255
            return [(st, (tv[0], tv[1] + hay.index(v)) if v in hay else (('null',), 0))]
        p = next(iter(d))
        groups = {}
        for b in st.B.get(p, ALL):
            v = self.ev(r['args'][1], st, {p: b}, loadpos)
            if v is None:
                return None
            v &= 255
            groups.setdefault(hay.index(v) if v in hay else None, set()).add(b)
        out = []
        for idx, bs in sorted(groups.items(), key=lambda kv: (kv[0] is None, kv[0])):
            s2 = st.copy()
            s2.B[p] = frozenset(bs)
            out.append((s2, (tv[0], tv[1] + idx) if idx is not None else (('null',), 0)))
        return out

    def pointer_value(self, e, st):
        """(root, disp) of a pointer-valued expression: cursor, cursor + k, cursor - k, &cursor[k]."""
        if e.get('null'):
            return (('null',), 0)
        e = strip_casts(e)
        c = self.cursor_of(e) if (e.get('k') == 'ref' or (e.get('k') == 'un' and e.get('op') == '*')) else None
        if c is not None:
            return st.cur.get(c)
        if e.get('k') == 'ref' and e.get('n') in self.tables and e.get('dk') in ('global', 'slocal'):
            return (('tbl', e['n']), 0)
        if e.get('null') or (const_val(e) == 0 and self.u.ty(e.get('ty'))['c'] == 'ptr'):
            return (('null',), 0)
        if e.get('k') == 'cond':
            t = self.truth_of(e['c'], st)
            if t is None:
                cv = self.ev(e['c'], st, {})
                t = None if cv is None else bool(cv)
            if t is not None:
                return self.pointer_value(e['t'] if t else e['e'], st)
            return None
        if e.get('k') == 'bin' and e['op'] in ('+', '-'):
            l = self.pointer_value(e['l'], st)
            k = self.ev(e['r'], st, {})
            if l is not None and l[1] is not None and k is not None:
                return (l[0], l[1] + (k if e['op'] == '+' else -k))
            if e['op'] == '+':
                r = self.pointer_value(e['r'], st)
                k = self.ev(e['l'], st, {})
                if r is not None and r[1] is not None and k is not None:
                    return (r[0], r[1] + k)
            return None
        if e.get('k') == 'un' and e['op'] == '&':
            return self.pos_of(e['e'], st)
        if e.get('k') == 'un' and e['op'] in ('post++', 'post--'):
            return self.pointer_value(e['e'], st)
        return None

    # ---- evaluation ----------------------------------------------------------------------------------
    def deps(self, e, st, loadpos=None):
        """Positions whose (unknown) byte value the expression depends on."""
        out = set()
        loadpos = loadpos or {}

        def go(x):
            x = strip_casts(x)
            k = x.get('k')
            if k in ('idx', 'un') and access(x) is not None and self.cursor_of(access(x)[0]) is not None:
                p = loadpos.get(x.get('id')) or self.pos_of(x, st)
                if p is None:
                    out.add(None)
                else:
                    o = st.over.get(p, 'none')
                    if o == 'none':
                        out.add(p)
                    elif o is None:
                        out.add(None)
                    elif o[0] == 'in':
                        out.add((o[1], o[2]))
                return
            if k == 'ref' and x.get('d') in self.scalars:
                v = st.vals.get(self.scalars[x['d']])
                if v is not None and v[0] == 'in':
                    out.add((v[1], v[2]))
                elif v is not None and v[0] == 'ex':
                    out.update(v[3])
                return
            if k == 'cond' and x.get('id') in st.truth:
                go(x['t'] if st.truth[x['id']] else x['e'])
                return
            for f in ('l', 'r', 'e', 'c', 't', 'b', 'i'):
                if f in x and isinstance(x[f], dict):
                    go(x[f])
            for a in x.get('args', []) or []:
                go(a)
        go(e)
        return out

    def truth_of(self, e, st):
        """Truth of a condition from the atomic branch outcomes recorded on this path."""
        e = strip_casts(e)
        if e.get('id') in st.truth:
            return st.truth[e['id']]
        k = e.get('k')
        if k == 'un' and e['op'] == '!':
            t = self.truth_of(e['e'], st)
            return None if t is None else (not t)
        if k == 'bin' and e['op'] == '&&':
            l = self.truth_of(e['l'], st)
            if l is False:
                return False
            r = self.truth_of(e['r'], st)
            if l is True:
                return r
            return None
        if k == 'bin' and e['op'] == '||':
            l = self.truth_of(e['l'], st)
            if l is True:
                return True
            r = self.truth_of(e['r'], st)
            if l is False:
                return r
            return None
        if k == 'cond':
            c = self.truth_of(e['c'], st)
            if c is None:
                return None
            return self.truth_of(e['t'] if c else e['e'], st)
        return None

    def ev(self, e, st, subst, loadpos=None):
        """Integer value of e with the bytes at the positions in subst fixed; None = not evaluable."""
        loadpos = loadpos or {}
        e0 = e
        v = const_val(e0)
        if v is None:
            v = const_val(strip_casts(e0))
        if v is not None:
            return v
        e = strip_casts(e0)
        k = e.get('k')
        val = None
        if k == 'ref' and e.get('d') in self.const_scalars:
            return self.finish(e0, e, self.const_scalars[e['d']])
        if k == 'idx' and strip_casts(e['b']).get('k') == 'idx' and strip_casts(strip_casts(e['b'])['b']).get('n') in self.tables2 and \
                strip_casts(strip_casts(e['b'])['b']).get('dk') in ('global', 'slocal'):
            rows = self.tables2[strip_casts(strip_casts(e['b'])['b'])['n']]
            i_ = self.ev(strip_casts(e['b'])['i'], st, subst, loadpos)
            j_ = self.ev(e['i'], st, subst, loadpos)
            if i_ is None or j_ is None or not (0 <= i_ < len(rows)) or not (0 <= j_ < len(rows[i_])):
                return None
            return self.finish(e0, e, rows[i_][j_])
        if k == 'mem' and not e.get('arrow') and strip_casts(e['b']).get('k') == 'idx' and \
                strip_casts(strip_casts(e['b'])['b']).get('n') in self.table_fields and \
                strip_casts(strip_casts(e['b'])['b']).get('dk') in ('global', 'slocal'):
            tn_ = strip_casts(strip_casts(e['b'])['b'])['n']
            rows = self.tables2[tn_]
            i_ = self.ev(strip_casts(e['b'])['i'], st, subst, loadpos)
            j_ = self.table_fields[tn_].get(e['f'])
            if i_ is None or j_ is None or not (0 <= i_ < len(rows)) or not (0 <= j_ < len(rows[i_])):
                return None
            return self.finish(e0, e, rows[i_][j_])
        if k in ('idx', 'un') and access(e) is not None and self.table_pos(e, st, subst, loadpos) is not None:
            tn, ti = self.table_pos(e, st, subst, loadpos)
            tb = self.tables[tn]
            if not (0 <= ti < len(tb)):
                return None
            val = tb[ti]
            return self.finish(e0, e, val)
        if k == 'bin' and e['op'] in ('==', '!=') and self.is_pointer(e['l']) and self.is_pointer(e['r']):
            l, r = self.pointer_value(e['l'], st), self.pointer_value(e['r'], st)
            if l is None or r is None or l[1] is None or r[1] is None:
                return None
            known = lambda pv: pv[0][0] in ('tbl', 'null')
            if known(l) and known(r):
                return int((l == r) == (e['op'] == '=='))
            if (l[0] == ('null',)) != (r[0] == ('null',)) and (known(l) or known(r)):
                other = r if l[0] == ('null',) else l
                if other[0][0] in ('tbl', 'p', 'g'):      # objects, parameters already dereferenced: not null
                    return int(e['op'] == '!=') if other[0][0] == 'tbl' else None
            return None
        if k == 'bin' and e['op'] == '-' and self.is_pointer(e['l']) and self.is_pointer(e['r']):
            l, r = self.pointer_value(e['l'], st), self.pointer_value(e['r'], st)
            if l is not None and r is not None and l[0] == r[0] and l[1] is not None and r[1] is not None and l[0] != ('null',):
                return self.finish(e0, e, l[1] - r[1])
            return None
        if k == 'ref' and e.get('d') in self.cursors and False:
            return None
        if k in ('idx', 'un') and access(e) is not None and self.cursor_of(access(e)[0]) is not None:
            p = loadpos.get(e.get('id')) or self.pos_of(e, st)
            if p is None:
                return None
            if isinstance(p[0], tuple) and p[0][0] == 'tbl':
                tb = self.tables[p[0][1]]
                return self.finish(e0, e, tb[p[1]]) if 0 <= p[1] < len(tb) else None
            o = st.over.get(p, 'none')
            if o == 'none':
                val = subst.get(p)
                if val is None:
                    b = st.B.get(p, ALL)
                    if len(b) == 1:
                        val = next(iter(b))
            elif o is None:
                return None
            elif o[0] == 'k':
                val = o[1]
            elif o[0] == 'in':
                val = subst.get((o[1], o[2]))
            if val is None:
                return None
        elif k == 'ref':
            if e.get('d') in self.scalars:
                sv = st.vals.get(self.scalars[e['d']])
                if sv is None:
                    return None
                if sv[0] == 'k':
                    val = sv[1]
                elif sv[0] == 'in':
                    val = subst.get((sv[1], sv[2]))
                    if val is None:
                        b = st.B.get((sv[1], sv[2]), ALL)
                        if len(b) == 1:
                            val = next(iter(b))
                    if val is None:
                        return None
                elif sv[0] == 'ex':
                    e2, st2, lp2 = self.exvals[sv]
                    sub2 = dict(subst)
                    for pp in sv[3]:
                        if pp not in sub2:
                            b = st.B.get(pp, ALL)
                            if len(b) == 1:
                                sub2[pp] = next(iter(b))
                    val = self.ev(e2, st2, sub2, lp2)
                    if val is None:
                        return None
                else:
                    return None
            else:
                return None
        elif k == 'bin' and e['op'] in ('+', '-', '|', '&', '^', '<<', '>>', '*', '/', '%'):
            l, r = self.ev(e['l'], st, subst, loadpos), self.ev(e['r'], st, subst, loadpos)
            if l is None or r is None:
                return None
            op = e['op']
            if op in ('/', '%'):
                if r == 0:
                    return None
                val = int(l / r) if op == '/' else l - int(l / r) * r
            else:
                val = {'+': l + r, '-': l - r, '|': l | r, '&': l & r, '^': l ^ r, '<<': l << (r & 63), '>>': l >> (r & 63),
                       '*': l * r}[op]
        elif k == 'bin' and e['op'] in CMP_OPS:
            l, r = self.ev(e['l'], st, subst, loadpos), self.ev(e['r'], st, subst, loadpos)
            if l is None or r is None:
                return None
            val = int({'==': l == r, '!=': l != r, '<': l < r, '<=': l <= r, '>': l > r, '>=': l >= r}[e['op']])
        elif k == 'bin' and e['op'] in ('&&', '||'):
            t = self.truth_of(e, st) if e.get('id') is not None else None
            if t is not None:
                val = int(t)
            else:
                l = self.ev(e['l'], st, subst, loadpos)
                if l is None:
                    return None
                if e['op'] == '&&' and not l:
                    val = 0
                elif e['op'] == '||' and l:
                    val = 1
                else:
                    r = self.ev(e['r'], st, subst, loadpos)
                    if r is None:
                        return None
                    val = int(bool(r))
        elif k == 'un' and e['op'] in ('-', '~', '!', '+'):
            x = self.ev(e['e'], st, subst, loadpos)
            if x is None:
                return None
            val = {'-': -x, '~': ~x, '!': int(not x), '+': x}[e['op']]
        elif k == 'cond':
            c = self.truth_of(e['c'], st)
            if c is None:
                cv = self.ev(e['c'], st, subst, loadpos)
                if cv is None:
                    return None
                c = bool(cv)
            val = self.ev(e['t'] if c else e['e'], st, subst, loadpos)
            if val is None:
                return None
        elif k == 'call' and callee_name(e) in self.u.functions and self.u.functions[callee_name(e)].static and \
                callee_name(e) != self.fn.name:
            # a static helper applied to values: evaluated from its own AST (integer arguments only, no memory)
            args = [self.ev(a, st, subst, loadpos) for a in e['args']]
            if any(a is None for a in args):
                return None
            val = self.helper_value(callee_name(e), tuple(args))
            if val is None:
                return None
        elif k == 'idx' and _is_ctype_table(e['b']) is not None:
            # glibc's <ctype.h> macros: (*__ctype_b_loc())[c] is the class word of c, (*__ctype_tolower_loc())[c] its lower case
            x = self.ev(e['i'], st, subst, loadpos)
            if x is None or not (-128 <= x <= 255):
                return None
            val = _ctype_value(_is_ctype_table(e['b']), x)
        elif k == 'call' and callee_name(e) in _CTYPE_PREDICATES and len(e['args']) == 1:
            x = self.ev(e['args'][0], st, subst, loadpos)
            if x is None or not (0 <= x <= 255):
                return None
            val = int(_CTYPE_PREDICATES[callee_name(e)](x))
        elif k == 'call' and callee_name(e) in ('tolower', 'toupper') and len(e['args']) == 1:
            x = self.ev(e['args'][0], st, subst, loadpos)
            if x is None or not (0 <= x <= 255):
                return None
            val = _tolower(x) if callee_name(e) == 'tolower' else _toupper(x)
        else:
            return None
        return self.finish(e0, e, val)

    def finish(self, e0, e, val):
        # conversions: every node carries the type it is converted to implicitly ('ty') and, when that differs, its own type
        # ('ty0'); an explicit cast converts to its own type first (`(unsigned char)(c - 'A')` used as an int wraps at 8 bits)
        k = e.get('k')
        c = e0
        chain = []
        while c.get('k') == 'cast':
            chain.append(c)
            c = c['e']
        if k in ('bin', 'un') and e.get('op') not in CMP_OPS and e.get('op') not in ('&&', '||', '!') and not access_is_load(e):
            val = self.convert(val, e.get('ty0', e.get('ty')))      # the arithmetic itself wraps in its own type
        if 'ty0' in e and e.get('k') != 'cast':
            val = self.convert(val, e['ty'])
        for cst in reversed(chain):
            if 'ty0' in cst:
                val = self.convert(val, cst['ty0'])
            val = self.convert(val, cst['ty'])
        return val

    def convert(self, val, tyid):
        if tyid is None:
            return val
        t = self.u.ty(tyid)
        if t['c'] == 'bool':
            return int(bool(val))
        if t['c'] == 'int' and t.get('bits'):
            bits = t['bits']
            val &= (1 << bits) - 1
            if not t.get('unsigned') and val >= (1 << (bits - 1)):
                val -= (1 << bits)
        return val

    def helper_value(self, name, args):
        key = (name, args)
        if key in self.helper_cache:
            return self.helper_cache[key]
        from .shape import Interp, Heap, ShapeViolation
        h = self.u.functions[name]
        try:
            v = Interp({'unit': self.u}, Heap()).run(self.u, h, list(args))
        except (AnalysisBroken, ShapeViolation):
            v = None
        if isinstance(v, bool):
            v = int(v)
        if not isinstance(v, int):
            v = None
        self.helper_cache[key] = v
        return v

    def value_of(self, e, st, loadpos):
        """Abstract scalar value of an rvalue: ('k', v) | ('in', root, axis) | ('d', k) | None."""
        v = self.ev(e, st, {}, loadpos)
        if v is not None:
            return ('k', v)
        x = strip_casts(e)
        if x.get('k') in ('idx', 'un') and access(x) is not None and self.cursor_of(access(x)[0]) is not None:
            p = loadpos.get(x.get('id')) or self.pos_of(x, st)
            if p is None:
                return None
            o = st.over.get(p, 'none')
            if o == 'none':
                return ('in', p[0], p[1])
            return o
        if x.get('k') == 'ref' and x.get('d') in self.scalars:
            return st.vals.get(self.scalars[x['d']])
        if x.get('k') == 'bin' and x['op'] in ('+', '-'):
            l = self.value_of(x['l'], st, loadpos)
            r = self.ev(x['r'], st, {}, loadpos)
            if l is not None and l[0] == 'd' and r is not None:
                return ('d', l[1] + (r if x['op'] == '+' else -r))
            if x['op'] == '+':
                r2 = self.value_of(x['r'], st, loadpos)
                l2 = self.ev(x['l'], st, {}, loadpos)
                if r2 is not None and r2[0] == 'd' and l2 is not None:
                    return ('d', r2[1] + l2)
        if x.get('k') == 'cond':
            c = self.truth_of(x['c'], st)
            if c is not None:
                return self.value_of(x['t'] if c else x['e'], st, loadpos)
        return None

    def delta_base(self, e):
        e = strip_casts(e)
        while e.get('k') == 'bin' and e['op'] in ('+', '-'):
            if const_val(e['r']) is not None:
                e = strip_casts(e['l'])
            elif const_val(e['l']) is not None and e['op'] == '+':
                e = strip_casts(e['r'])
            else:
                return None
        if e.get('k') == 'ref' and e.get('d') in self.scalars:
            return self.scalars[e['d']]
        return None

    def split(self, e, st, loadpos, limit=16):
        """[(state, abstract value)]: when e depends on one position and takes at most `limit` distinct values over that
        position's byte set, the state is split per value; otherwise one entry with value_of()."""
        v = self.value_of(e, st, loadpos)
        if v is not None:
            return [(st, v)]
        d = self.deps(e, st, loadpos)
        if len(d) == 1 and None not in d:
            p = next(iter(d))
            groups = {}
            for b in st.B.get(p, ALL):
                r = self.ev(e, st, {p: b}, loadpos)
                if r is None:
                    return [(st, None)]
                groups.setdefault(r, set()).add(b)
                if len(groups) > limit:
                    return [(st, self.symbolic(e, st, loadpos, d))]
            out = []
            for r, bs in sorted(groups.items()):
                s2 = st.copy()
                s2.B[p] = frozenset(bs)
                out.append((s2, ('k', r)))
            return out
        return [(st, self.symbolic(e, st, loadpos, d))]

    def symbolic(self, e, st, loadpos, d=None):
        """('ex', ...) key of a value that is a function of input bytes too varied to split on: the expression with the positions
        its loads designate now; evaluated later under a substitution of those bytes."""
        d = self.deps(e, st, loadpos) if d is None else d
        if not d or None in d:
            return None
        lp = dict(loadpos or {})
        for x in walk(e):
            x0 = strip_casts(x)
            if x0.get('k') in ('idx', 'un') and access(x0) is not None and self.cursor_of(access(x0)[0]) is not None and x0.get('id') not in lp:
                p = self.pos_of(x0, st)
                if p is None:
                    return None
                lp[x0['id']] = p
        key = ('ex', e.get('id'), tuple(sorted(lp.items(), key=repr)), tuple(sorted(d, key=repr)))
        if key not in self.exvals:
            self.exvals[key] = (e, st.copy(), lp)
        return key

    def refine(self, e, truth, st, loadpos=None):
        """State after condition e evaluated to truth, or None when that is impossible on this path."""
        d = self.deps(e, st, loadpos)
        if not d:
            v = self.ev(e, st, {}, loadpos)
            if v is None:
                s2 = st.copy()
                s2.rel.append((e, truth, st, dict(loadpos or {})))
                return s2
            return st.copy() if bool(v) == truth else None
        if len(d) == 1 and None not in d:
            p = next(iter(d))
            keep = set()
            for b in st.B.get(p, ALL):
                r = self.ev(e, st, {p: b}, loadpos)
                if r is None:
                    s2 = st.copy()
                    s2.rel.append((e, truth, st, dict(loadpos or {})))
                    return s2
                if bool(r) == truth:
                    keep.add(b)
            if not keep:
                return None
            s2 = st.copy()
            s2.B[p] = frozenset(keep)
            return s2
        if None not in d and len(d) == 2:
            # two positions: prune only when no pair of values satisfies the outcome (small sets), never split
            p, q = sorted(d, key=repr)
            bp, bq = st.B.get(p, ALL), st.B.get(q, ALL)
            if len(bp) * len(bq) <= 4096:
                possible = False
                evaluable = True
                for x in bp:
                    for y in bq:
                        r = self.ev(e, st, {p: x, q: y}, loadpos)
                        if r is None:
                            evaluable = False
                            break
                        if bool(r) == truth:
                            possible = True
                            break
                    if possible or not evaluable:
                        break
                if evaluable and not possible:
                    return None
        s2 = st.copy()
        s2.rel.append((e, truth, st, dict(loadpos or {})))
        return s2

    # ---- the exploration -----------------------------------------------------------------------------
    def close(self, st, end, node):
        seg = Segment()
        seg.start = st.start
        seg.end = end
        seg.B = dict(st.B)
        seg.pos = dict(st.cur)
        seg.start_root = dict(st.start_root)
        seg.writes = list(st.writes)
        seg.vals = dict(st.vals)
        seg.rel = list(st.rel)
        seg.line = node.line
        seg.end_node = node
        seg.st = st
        seg.readers = set(st.readers)
        self.segments.append(seg)

    def rebase(self, st, head_id):
        """New segment at a loop head: positions re-based, everything learned about bytes and scalars forgotten."""
        groups = {}
        for c, p in st.cur.items():
            if p is not None and p[1] is not None:
                groups.setdefault(p[0], []).append((p[1], c))
        cur = {}
        for root, members in groups.items():
            lead = max(d for d, _c in members)
            leaders = sorted(c for d, c in members if d == lead)
            for d, c in members:
                if d == lead:
                    cur[c] = (('g',) + tuple(leaders), 0)
                else:
                    cur[c] = (('g', c), 0)
        for c, p in st.cur.items():
            if c not in cur:
                cur[c] = (('g', c), 0) if p is not None else None
        s2 = _St()
        s2.nid = head_id
        s2.cur = cur
        s2.B = {}
        s2.vals = {n: ('d', 0) for n in self.scalars.values()}
        # a scalar that holds an input byte keeps holding it: the byte's position is re-expressed relative to the new roots
        # (current = lookahead; ++cursor; at the top of the next round `current` is the byte under the cursor)
        remap = {}
        for root, members in groups.items():
            lead = max(d for d, _c in members)
            leaders = sorted(c for d, c in members if d == lead)
            remap[root] = (('g',) + tuple(leaders), lead)
        for n, v in st.vals.items():
            if v is not None and v[0] == 'in' and v[1] in remap and n not in self.assume and -2 <= v[2] - remap[v[1]][1] <= 8:
                s2.vals[n] = ('in', remap[v[1]][0], v[2] - remap[v[1]][1])       # bytes far behind the cursor are let go
        for n, v in self.assume.items():
            # an assumed parameter keeps its value as long as the function never assigns it
            if n in self.scalars.values() and n not in self.assigned_scalars:
                s2.vals[n] = ('k', v)
        s2.over = {}
        s2.truth = {}
        s2.writes = []
        s2.rel = []
        s2.start = head_id
        s2.start_root = {c: (p[0] if p is not None else None) for c, p in cur.items()}
        s2.fresh = True
        s2.readers = frozenset()
        return s2

    def run(self):
        st = _St()
        st.nid = self.cfg.entry.id
        st.cur = {}
        for d, n in self.cursors.items():
            st.cur[n] = (('p', n), 0) if d in self.param_ids else None
        for d, n in self.pcursors.items():
            st.cur[n] = (('p', n), 0)
        st.B = {}
        st.vals = {}
        for d, n in self.scalars.items():
            st.vals[n] = ('d', 0) if d in self.param_ids else None
            if d in self.param_ids and n in self.assume:
                st.vals[n] = ('k', self.assume[n])
        st.over = {}
        st.truth = {}
        st.writes = []
        st.rel = []
        st.start = 'entry'
        st.start_root = {c: (p[0] if p is not None else None) for c, p in st.cur.items()}
        st.fresh = False
        st.readers = frozenset()
        work = [st]
        seen = set()
        head_seen = set()
        steps = 0
        while work:
            st = work.pop()
            steps += 1
            if steps > self.max_steps:
                raise AnalysisBroken('byte-path exploration of %s does not finish' % self.fn.name)
            node = self.cfg.nodes[st.nid]
            if st.nid in self.heads and not st.fresh and self.unrollable(st):
                # a loop that only steps scalars whose values are known here (a search of a constant table by index): followed
                # iteration by iteration inside the segment
                sg = st.sig()
                if sg in seen:
                    continue
                seen.add(sg)
                for s2 in self.step(node, st):
                    work.append(s2)
                continue
            if st.nid in self.heads and not st.fresh:
                # arriving at a loop head ends the segment; the next one starts from a re-based, forgotten state
                self.close(st, ('head', st.nid), node)
                s2 = self.rebase(st, st.nid)
                key = (st.nid, tuple(sorted(s2.cur.items(), key=repr)),
                       tuple(sorted((n, v) for n, v in s2.vals.items() if v is not None and v[0] == 'in')))
                if key not in head_seen:
                    head_seen.add(key)
                    work.append(s2)
                continue
            if st.nid == self.cfg.exit.id:
                self.close(st, ('exit',), node)
                continue
            sg = st.sig()
            if sg in seen:
                continue
            seen.add(sg)
            st.fresh = False
            for s2 in self.step(node, st):
                work.append(s2)
        return self.segments

    def unrollable(self, st):
        if self._loop_info is None:
            info = {}
            for h in self.heads:
                # natural loop of h: the sources of its back edges and everything that reaches them without passing h
                tails = [x for (x, _l) in self.cfg.pred[h] if self.cfg.dominates(h, x)]
                body = {h}
                for t_ in tails:
                    body |= self.cfg.reachable(t_, forward=False, stop={h}) | {t_}
                mods, moves, inner = set(), False, False
                for nid in body:
                    n = self.cfg.nodes[nid]
                    if nid != h and nid in self.heads:
                        inner = True
                    for ev in node_effects(n):
                        if ev.kind in ('store', 'incdec') and ev.lhs is not None:
                            t = strip_casts(ev.lhs)
                            if t.get('k') == 'ref' and t.get('d') in self.scalars:
                                mods.add(self.scalars[t['d']])
                            elif t.get('k') == 'ref' and t.get('d') in self.cursors:
                                moves = True
                            else:
                                moves = True          # a store through memory: not a pure search
                        elif ev.kind == 'declinit' and ev.lhs.get('d') in self.scalars:
                            mods.add(self.scalars[ev.lhs['d']])
                        elif ev.kind == 'declinit' and ev.lhs.get('d') in self.cursors:
                            moves = True
                        elif ev.kind == 'call':
                            moves = True
                # only loops with a bound of their own: some test of the stepped scalars alone (no input byte in it) leaves the loop
                bounded = False
                for nid in body:
                    n = self.cfg.nodes[nid]
                    if n.kind != 'branch' or n.expr is None:
                        continue
                    refs = [x for x in walk(n.expr) if x.get('k') == 'ref']
                    loads = [x for x in walk(n.expr) if (x.get('k') == 'idx' or (x.get('k') == 'un' and x.get('op') == '*')) and
                             access(x) is not None and self.cursor_of(access(x)[0]) is not None]
                    if loads or not any(x.get('d') in self.scalars and self.scalars[x['d']] in mods for x in refs):
                        continue
                    if any(y not in body for (y, _l) in self.cfg.succ[nid]):
                        bounded = True
                info[h] = (mods, moves or inner or not bounded)
            self._loop_info = info
        mods, blocked = self._loop_info[st.nid]
        if blocked or not mods:
            return False
        return all(st.vals.get(n) is not None and st.vals[n][0] == 'k' for n in mods)

    def step(self, node, st):
        """Successor states of executing node in st."""
        states = [st.copy()]
        loadpos = {}
        if node.kind == 'return':
            if node.expr is not None:
                self.apply_effects(node, states, loadpos)
                out = []
                for s in states:
                    for (s3, v) in self.split(node.expr, s, loadpos):
                        self.close(s3, ('return', v), node)
                return []
            self.close(st, ('return', None), node)
            return []
        states = self.apply_effects(node, states, loadpos)
        out = []
        for s in states:
            for (y, label) in self.cfg.succ[node.id]:
                s2 = s
                if label is not None and label[0] in ('T', 'F') and node.kind == 'branch':
                    s2 = self.refine(label[1], label[0] == 'T', s, loadpos)
                    if s2 is None:
                        continue
                    if label[1].get('id') is not None:
                        s2.truth[label[1]['id']] = (label[0] == 'T')
                elif label is not None and label[0] in ('case', 'default'):
                    s2 = self.refine_switch(label, s, loadpos)
                    if s2 is None:
                        continue
                else:
                    s2 = s.copy()
                s2.nid = y
                out.append(s2)
        return out

    def refine_switch(self, label, st, loadpos):
        e = label[1]
        d = self.deps(e, st, loadpos)
        vals = [label[2]] if label[0] == 'case' else list(label[2])
        if not d:
            v = self.ev(e, st, {}, loadpos)
            if v is None:
                return st.copy()
            hit = (v in vals)
            return st.copy() if hit == (label[0] == 'case') else None
        if len(d) == 1 and None not in d:
            p = next(iter(d))
            keep = set()
            for b in st.B.get(p, ALL):
                r = self.ev(e, st, {p: b}, loadpos)
                if r is None:
                    return st.copy()
                if (r in vals) == (label[0] == 'case'):
                    keep.add(b)
            if not keep:
                return None
            s2 = st.copy()
            s2.B[p] = frozenset(keep)
            return s2
        return st.copy()

    def apply_effects(self, node, states, loadpos):
        """Apply the events of node to each state (states may multiply when an assigned value splits a byte set)."""
        evs = node_effects(node)
        for ev in evs:
            nxt = []
            for st in states:
                nxt.extend(self.apply_event(ev, st, loadpos, node))
            states[:] = nxt
        return states

    def apply_event(self, ev, st, loadpos, node):
        if ev.kind == 'load':
            p = self.pos_of(ev.node, st)
            if p is not None and ev.node.get('id') is not None:
                loadpos[ev.node['id']] = p
            acc = access(ev.node)
            if acc is not None and self.cursor_of(acc[0]) is not None:
                st.readers = st.readers | {self.stream_of(self.cursor_of(acc[0]), p)}
            return [st]
        if ev.kind == 'incdec':
            c = self.cursor_of(ev.lhs)
            t = strip_casts(ev.lhs)
            if c is not None and (t.get('k') == 'ref' or c.startswith('*')):
                p = st.cur.get(c)
                if p is not None and p[1] is not None:
                    st.cur[c] = (p[0], p[1] + ev.delta)
            elif t.get('k') == 'ref' and t.get('d') in self.scalars:
                n = self.scalars[t['d']]
                v = st.vals.get(n)
                if v is not None and v[0] in ('k', 'd'):
                    st.vals[n] = (v[0], v[1] + ev.delta)
                else:
                    st.vals[n] = None
            elif access(t) is not None and self.cursor_of(access(t)[0]) is not None:
                p = self.pos_of(t, st)
                if p is not None:
                    st.over[p] = None
                    st.writes.append((p[0], p[1], None, self.stream_of(self.cursor_of(access(t)[0]), p)))
            return [st]
        if ev.kind in ('store', 'declinit'):
            if ev.kind == 'declinit':
                if ev.rhs is None:
                    return [st]
                d = ev.lhs
                target = {'k': 'ref', 'd': d['d'], 'n': d['n'], 'ty': d['ty'], 'dk': 'local'}
                op = '='
                rhs = ev.rhs
            else:
                target = strip_casts(ev.lhs)
                op = ev.node['op']
                rhs = ev.node['r']
            if (target.get('k') == 'ref' and target.get('d') in self.cursors) or \
                    (target.get('k') == 'un' and target.get('op') == '*' and (self.cursor_of(target) or '').startswith('*')):
                c = self.cursor_of(target)
                if op == '=':
                    found = self.table_search(rhs, st, loadpos)
                    if found is not None:
                        out = []
                        for (s2, pv) in found:
                            s2.cur[c] = pv
                            out.append(s2)
                        return out
                    st.cur[c] = self.pointer_value(rhs, st)
                    if st.cur[c] is None:
                        # a pointer this exploration knows nothing about: a fresh stream
                        st.cur[c] = (('a', c, node.line), 0)
                elif op in ('+=', '-='):
                    k = self.ev(rhs, st, {}, loadpos)
                    p = st.cur.get(c)
                    if p is not None and p[1] is not None and k is not None:
                        st.cur[c] = (p[0], p[1] + (k if op == '+=' else -k))
                    elif p is not None and p[1] is not None and op == '+=' and self.delta_base(rhs) is not None and \
                            (self.value_of(rhs, st, loadpos) or (None,))[0] == 'd':
                        # cursor += counter: the position that reads through cursor[counter] designate
                        st.cur[c] = (('ix', p[0], self.delta_base(rhs)), p[1] + self.value_of(rhs, st, loadpos)[1])
                    elif p is not None:
                        st.cur[c] = (p[0], None)
                return [st]
            if target.get('k') == 'ref' and target.get('d') in self.scalars:
                n = self.scalars[target['d']]
                if op == '=':
                    out = []
                    for (s2, v) in self.split(rhs, st, loadpos):
                        if v is not None and v[0] == 'd' and self.delta_base(rhs) != n:
                            v = None       # a delta is relative to that scalar's own value at the start of the segment
                        s2.vals[n] = v
                        out.append(s2)
                    return out
                k = self.ev(rhs, st, {}, loadpos)
                v = st.vals.get(n)
                if op in ('+=', '-=') and k is None:
                    out = []
                    for (s2, kv) in self.split(rhs, st, loadpos):
                        v2 = s2.vals.get(n)
                        if kv is not None and kv[0] == 'k' and v2 is not None and v2[0] in ('k', 'd'):
                            s2.vals[n] = (v2[0], v2[1] + (kv[1] if op == '+=' else -kv[1]))
                        else:
                            s2.vals[n] = None
                        out.append(s2)
                    return out
                if op in ('+=', '-=') and v is not None and v[0] in ('k', 'd'):
                    st.vals[n] = (v[0], v[1] + (k if op == '+=' else -k))
                elif v is not None and v[0] == 'k' and k is not None and op in ('|=', '&=', '<<=', '>>=', '*=', '^='):
                    a = v[1]
                    st.vals[n] = ('k', {'|=': a | k, '&=': a & k, '<<=': a << (k & 63), '>>=': a >> (k & 63), '*=': a * k,
                                        '^=': a ^ k}[op])
                else:
                    st.vals[n] = None
                return [st]
            if access(target) is not None and self.cursor_of(access(target)[0]) is not None:
                p = self.pos_of(target, st)
                wc = self.stream_of(self.cursor_of(access(target)[0]), p)
                if p is None:
                    c = wc
                    st.writes.append((('?', c), None, None, c))
                    return [st]
                if op == '=':
                    out = []
                    for (s2, v) in self.split(rhs, st, loadpos):
                        if v is not None and v[0] == 'd':
                            v = None
                        if v is not None and v[0] == 'k':
                            v = ('k', v[1] & 255)
                        s2.writes.append((p[0], p[1], v, wc))
                        if not (v is not None and v[0] == 'in' and (v[1], v[2]) == p):
                            s2.over[p] = v
                        out.append(s2)
                    return out
                st.writes.append((p[0], p[1], None, wc))
                st.over[p] = None
                return [st]
            return [st]
        if ev.kind == 'call':
            cn = callee_name(ev.node)
            args = ev.node.get('args', [])
            if cn in ('sprintf', 'strcpy', 'memcpy', 'strcat') and args:
                dst = self.pointer_value(args[0], st)
                dc = None
                for x in walk(args[0]):
                    if x.get('k') == 'ref' and x.get('d') in self.cursors:
                        dc = self.cursors[x['d']]
                if dst is None or dst[1] is None:
                    if self.cursor_of(strip_casts(args[0])) is not None or any(
                            x.get('k') == 'ref' and x.get('d') in self.cursors for x in walk(args[0])):
                        st.writes.append((('?', cn), None, None, None))
                    return [st]
                if cn == 'sprintf' and len(args) >= 2 and strip_casts(args[1]).get('k') == 'str':
                    fmt = bytes(strip_casts(args[1])['bytes'])
                    vals = [self.value_of(a, st, loadpos) for a in args[2:]]
                    st.writes.append((dst[0], dst[1], ('fmt', fmt, vals), dc))
                elif cn in ('strcpy', 'memcpy') and len(args) >= 2 and strip_casts(args[1]).get('k') == 'str':
                    lit = list(strip_casts(args[1])['bytes']) + [0]
                    n = len(lit)
                    if cn == 'memcpy':
                        n = self.ev(args[2], st, {}, loadpos) if len(args) > 2 else None
                        if n is None or n > len(lit):
                            st.writes.append((dst[0], dst[1], None, dc))
                            return [st]
                    for i in range(n):
                        st.writes.append((dst[0], dst[1] + i, ('k', lit[i]), dc))
                        st.over[(dst[0], dst[1] + i)] = ('k', lit[i])
                else:
                    src = self.pointer_value(args[1], st) if len(args) > 1 else None
                    st.writes.append((dst[0], dst[1], ('copy', cn, src), dc))
            return [st]
        return [st]


def explore(u, fn, assume=None):
    ex = Explorer(u, fn, assume=assume)
    ex.run()
    return ex


def feasible(ex, seg, subst):
    """Can the path of seg be taken when the bytes at the positions in subst have the given values?  False when a byte
    is outside the segment's set or an undecided condition on the path evaluates the other way; None when a condition
    cannot be evaluated even then."""
    for p, v in subst.items():
        if v not in seg.B.get(p, ALL):
            return False
    unknown = False
    for (e, truth, st, loadpos) in seg.rel:
        r = ex.ev(e, st, subst, loadpos)
        if r is None:
            unknown = True
        elif bool(r) != truth:
            return False
    return None if unknown else True


def pair_relation(ex, seg, p, q):
    """feasible() specialised to two positions: returns f(x, y) -> True/False/None.  Comparisons whose two sides each depend
    on one of the positions are tabulated once per side (256 evaluations each) instead of once per pair."""
    import operator
    ops = {'==': operator.eq, '!=': operator.ne, '<': operator.lt, '<=': operator.le, '>': operator.gt, '>=': operator.ge}
    tests = []
    for (e, truth, st, loadpos) in seg.rel:
        e0 = strip_casts(e)
        done = False
        if e0.get('k') == 'bin' and e0['op'] in ops:
            dl, dr = ex.deps(e0['l'], st, loadpos), ex.deps(e0['r'], st, loadpos)
            for (a, b, swap) in ((p, q, False), (q, p, True)):
                if dl <= {a} and dr <= {b} and None not in dl and None not in dr:
                    tl = [ex.ev(e0['l'], st, {a: v}, loadpos) for v in range(256)]
                    tr = [ex.ev(e0['r'], st, {b: v}, loadpos) for v in range(256)]
                    tests.append(('tab', ops[e0['op']], tl, tr, swap, truth))
                    done = True
                    break
        if not done:
            tests.append(('gen', e, truth, st, loadpos))
    Bp, Bq = seg.B.get(p, ALL), seg.B.get(q, ALL)

    def f(x, y):
        if x not in Bp or y not in Bq:
            return False
        unknown = False
        for t in tests:
            if t[0] == 'tab':
                l = t[2][y if t[4] else x]
                r = t[3][x if t[4] else y]
                if l is None or r is None:
                    unknown = True
                elif bool(t[1](l, r)) != t[5]:
                    return False
            else:
                r = ex.ev(t[1], t[3], {p: x, q: y}, t[4])
                if r is None:
                    unknown = True
                elif bool(r) != t[2]:
                    return False
        return None if unknown else True
    return f


def pair_value(ex, st, e0, p, q, loadpos=None):
    """f(x, y) = value of e0 with bytes x at p and y at q; sub-expressions that depend on one position only are tabulated."""
    d = ex.deps(e0, st, loadpos)
    if None not in d:
        if d <= {p}:
            tab = [ex.ev(e0, st, {p: v}, loadpos) for v in range(256)]
            return lambda x, y: tab[x]
        if d <= {q}:
            tab = [ex.ev(e0, st, {q: v}, loadpos) for v in range(256)]
            return lambda x, y: tab[y]
    e = strip_casts(e0)
    ARITH = {'+': lambda l, r: l + r, '-': lambda l, r: l - r, '|': lambda l, r: l | r, '&': lambda l, r: l & r, '^': lambda l, r: l ^ r,
             '*': lambda l, r: l * r, '==': lambda l, r: int(l == r), '!=': lambda l, r: int(l != r), '<': lambda l, r: int(l < r),
             '<=': lambda l, r: int(l <= r), '>': lambda l, r: int(l > r), '>=': lambda l, r: int(l >= r)}
    if e.get('k') == 'bin' and e['op'] in ARITH and const_val(e0) is None:
        fl, fr = pair_value(ex, st, e['l'], p, q, loadpos), pair_value(ex, st, e['r'], p, q, loadpos)
        op = ARITH[e['op']]

        def f(x, y):
            l, r = fl(x, y), fr(x, y)
            if l is None or r is None:
                return None
            return ex.finish(e0, e, op(l, r))
        return f
    return lambda x, y: ex.ev(e0, st, {p: x, q: y}, loadpos)


def loop_segments(ex, head=None):
    return [s for s in ex.segments if s.start != 'entry' and (head is None or s.start == head)]


def reading_cursors(segs):
    """Cursors through which some segment learned something about the byte under them."""
    out = set()
    for s in segs:
        for c in s.readers:
            if s.constrained(c):
                out.add(c)
    return out


def writing_cursors(segs):
    out = set()
    for s in segs:
        for w in s.writes:
            if w[3] is not None:
                out.add(w[3])
    return out


def expand_text(writes, base, byte_of):
    """Concrete bytes written at positions base, base+1, ... given byte_of((root, axis)) for copied input bytes.
    Returns {position: value}; formatted text is expanded with the C semantics of the integer conversions used."""
    out = {}
    for (axis, v) in writes:
        if axis is None or v is None:
            return None
        if v[0] == 'k':
            out[axis] = v[1]
        elif v[0] == 'in':
            b = byte_of((v[1], v[2]))
            if b is None:
                return None
            out[axis] = b
        elif v[0] == 'fmt':
            args = []
            for a in v[2]:
                if a is None:
                    return None
                if a[0] == 'k':
                    args.append(a[1])
                elif a[0] == 'in':
                    b = byte_of((a[1], a[2]))
                    if b is None:
                        return None
                    args.append(b)
                else:
                    return None
            import re
            fmt = v[1].decode('latin1')
            fmt = re.sub(r'%([-+ #0]*\d*(?:\.\d+)?)(?:hh|h|ll|l|z|j|t)?([diuxXoc])', lambda m: '%' + m.group(1) + (
                'd' if m.group(2) in 'iu' else m.group(2)), fmt)
            try:
                text = fmt % tuple(args)
            except (TypeError, ValueError):
                return None
            for i, ch in enumerate(text.encode('latin1')):
                out[axis + i] = ch
            out[axis + len(text)] = 0
        else:
            return None
    return out
