"""NUM1: which numbers are printed as `null` - decided over the classes of IEEE doubles.

print_number is followed once for each class of the value being printed

    nan   +inf   -inf   finite positive   finite negative   zero

with every expression over the value evaluated in a class domain (a class stands for the interval of doubles it contains; NaN
makes every ordered comparison false; x - x is zero for finite x and NaN otherwise; static helpers are followed from their
own bodies; isnan / isinf / isfinite in all the spellings the C library expands them to).  Conditions that do not involve the
value are taken both ways.  Obligations: for the three non-finite classes no path reaches a numeric conversion and some path
writes the literal `null`; for the finite classes no path writes `null`.  Nothing is executed; when a condition on the value
cannot be decided in the class domain and the verdict depends on it, the analysis is broken (exit 2), not a violation.
"""
import math
from ..facts import AnalysisBroken, strip_casts, callee_name, expr_str, const_val, walk, ASSIGN_OPS

CLASSES = ('nan', 'pinf', 'ninf', 'pos', 'neg', 'zero')
ALLC = frozenset(CLASSES)
FINITE = frozenset(('pos', 'neg', 'zero'))
DBL_MAX = 1.7976931348623157e308
INF = float('inf')
BOTH = frozenset((True, False))
UNKNOWN = 'unknown'

# class -> (lo, hi, lo_open, hi_open)
RANGE = {'pinf': (INF, INF, False, False), 'ninf': (-INF, -INF, False, False), 'zero': (0.0, 0.0, False, False),
         'pos': (0.0, DBL_MAX, True, False), 'neg': (-DBL_MAX, 0.0, False, True)}

ISNAN = {'isnan', '__isnan', '__builtin_isnan', '__isnanf', '__isnanl'}
ISINF = {'isinf', '__isinf', '__builtin_isinf', '__builtin_isinf_sign', '__isinff', '__isinfl'}
ISFINITE = {'isfinite', '__finite', '__builtin_isfinite', 'finite', '__finitef'}
FABS = {'fabs', '__builtin_fabs', 'fabsl', 'fabsf'}


def cls_of_const(v):
    if v != v:
        return 'nan'
    if v == INF:
        return 'pinf'
    if v == -INF:
        return 'ninf'
    if v == 0:
        return 'zero'
    return 'pos' if v > 0 else 'neg'


class AV(object):
    """abstract double: a set of classes, or one constant"""
    __slots__ = ('cls', 'const')

    def __init__(self, cls, const=None):
        self.cls = frozenset(cls)
        self.const = const

    def ranges(self):
        if self.const is not None and self.const == self.const:
            return [('k', (self.const, self.const, False, False))]
        return [(c, RANGE.get(c)) for c in self.cls]

    def __repr__(self):
        return 'AV(%s%s)' % (sorted(self.cls), '' if self.const is None else ', %r' % self.const)


def av_const(v):
    return AV([cls_of_const(v)], v)


def _cmp_ranges(op, a, b):
    """truth values op can take between a number in range a and one in range b (ranges of non-NaN values)"""
    alo, ahi, alo_o, ahi_o = a
    blo, bhi, blo_o, bhi_o = b

    def lt_always():      # every x in a is < every y in b
        return ahi < blo or (ahi == blo and (ahi_o or blo_o))

    def ge_always():      # every x >= every y
        return alo > bhi or (alo == bhi and True)

    def le_always():
        return ahi < blo or ahi == blo

    def gt_always():
        return alo > bhi or (alo == bhi and (alo_o or bhi_o))
    point = alo == ahi and blo == bhi and not (alo_o or ahi_o or blo_o or bhi_o)
    if op == '<':
        return {True} if lt_always() else ({False} if ge_always() else BOTH)
    if op == '>=':
        return {True} if ge_always() else ({False} if lt_always() else BOTH)
    if op == '<=':
        return {True} if le_always() else ({False} if gt_always() else BOTH)
    if op == '>':
        return {True} if gt_always() else ({False} if le_always() else BOTH)
    if op in ('==', '!='):
        eq = {True} if (point and alo == blo) else ({False} if (lt_always() or gt_always()) else BOTH)
        return eq if op == '==' else {not t for t in eq}
    return BOTH


def compare(op, l, r):
    out = set()
    for (lc, lr) in l.ranges():
        for (rc, rr) in r.ranges():
            if lc == 'nan' or rc == 'nan' or lr is None or rr is None:
                out.add(op == '!=')
            else:
                out |= set(_cmp_ranges(op, lr, rr))
    return frozenset(out)


def _neg(c):
    return {'pos': 'neg', 'neg': 'pos', 'pinf': 'ninf', 'ninf': 'pinf'}.get(c, c)


def _add(a, b):
    if a == 'nan' or b == 'nan':
        return {'nan'}
    if a in ('pinf', 'ninf') or b in ('pinf', 'ninf'):
        if {a, b} == {'pinf', 'ninf'}:
            return {'nan'}
        return {a if a in ('pinf', 'ninf') else b}
    if a == 'zero':
        return {b}
    if b == 'zero':
        return {a}
    if a == b:
        return {a, 'pinf' if a == 'pos' else 'ninf'}      # may overflow
    return {'pos', 'neg', 'zero'}


def _mul(a, b):
    if a == 'nan' or b == 'nan':
        return {'nan'}
    inf = ('pinf', 'ninf')
    if (a in inf and b == 'zero') or (b in inf and a == 'zero'):
        return {'nan'}
    if a == 'zero' or b == 'zero':
        return {'zero'}
    sa = 1 if a in ('pos', 'pinf') else -1
    sb = 1 if b in ('pos', 'pinf') else -1
    s = sa * sb
    if a in inf or b in inf:
        return {'pinf' if s > 0 else 'ninf'}
    return {'pos', 'pinf', 'zero'} if s > 0 else {'neg', 'ninf', 'zero'}     # overflow and underflow


def _div(a, b):
    if a == 'nan' or b == 'nan':
        return {'nan'}
    inf = ('pinf', 'ninf')
    if (a in inf and b in inf) or (a == 'zero' and b == 'zero'):
        return {'nan'}
    sa = 1 if a in ('pos', 'pinf') else -1
    sb = 1 if b in ('pos', 'pinf', 'zero') else -1
    s = sa * sb
    if b == 'zero':
        return {'pinf', 'ninf'} if a != 'zero' else {'nan'}
    if a == 'zero':
        return {'zero'}
    if a in inf:
        return {'pinf' if s > 0 else 'ninf'}
    if b in inf:
        return {'zero'}
    return {'pos', 'pinf', 'zero'} if s > 0 else {'neg', 'ninf', 'zero'}


class Eval(object):
    def __init__(self, u, tracked_field):
        self.u = u
        self.field = tracked_field
        self.depth = 0

    def is_float(self, e):
        t = self.u.ty(e.get('ty0', e['ty'])) if 'ty' in e else None
        return t is not None and t['c'] == 'float'

    def mentions(self, e, env):
        for x in walk(e):
            if x.get('k') == 'mem' and x.get('f') == self.field:
                return True
            if x.get('k') == 'ref' and x.get('d') in env.get('@tainted', ()):
                return True
        return False

    # ---- doubles
    def fv(self, e, env):
        e = strip_casts(e)
        k = e.get('k')
        if k == 'float':
            return av_const(float(e['fval']))
        v = const_val(e)
        if v is not None:
            return av_const(float(v))
        if k == 'ref':
            x = env.get(e.get('d'))
            if isinstance(x, AV):
                return x
            if not self.is_float(e):
                return AV(FINITE)            # an integer converted to double is finite
            return AV(ALLC)
        if k == 'mem':
            if e['f'] == self.field and '@value' in env:
                return env['@value']
            if not self.is_float(e):
                return AV(FINITE)
            return AV(ALLC)
        if k == 'un' and e['op'] in ('-', '+'):
            x = self.fv(e['e'], env)
            if e['op'] == '+':
                return x
            return AV({_neg(c) for c in x.cls}, None if x.const is None else -x.const)
        if k == 'bin' and e['op'] in ('+', '-', '*', '/'):
            l, r = self.fv(e['l'], env), self.fv(e['r'], env)
            if l.const is not None and r.const is not None:
                try:
                    v = {'+': lambda: l.const + r.const, '-': lambda: l.const - r.const, '*': lambda: l.const * r.const,
                         '/': lambda: l.const / r.const}[e['op']]()
                    return av_const(v)
                except (ZeroDivisionError, OverflowError):
                    pass
            if e['op'] == '-' and self.same(e['l'], e['r'], env):
                return AV({'zero' if c in FINITE else 'nan' for c in l.cls})
            out = set()
            for a in l.cls:
                for b in r.cls:
                    if e['op'] == '+':
                        out |= _add(a, b)
                    elif e['op'] == '-':
                        out |= _add(a, _neg(b))
                    elif e['op'] == '*':
                        out |= _mul(a, b)
                    else:
                        out |= _div(a, b)
            return AV(out)
        if k == 'cond':
            t = self.tv(e['c'], env)
            if t is UNKNOWN:
                t = BOTH
            out = set()
            for b in t:
                out |= self.fv(e['t'] if b else e['e'], env).cls
            return AV(out)
        if k == 'call':
            cn = callee_name(e)
            if cn in FABS and len(e['args']) == 1:
                x = self.fv(e['args'][0], env)
                return AV({{'neg': 'pos', 'ninf': 'pinf'}.get(c, c) for c in x.cls}, None if x.const is None else abs(x.const))
            h = self.u.functions.get(cn)
            if h is not None and h.static and h.body is not None and self.depth < 4:
                rets = self.run(h, [self.arg(a, env) for a in e['args']])
                out = set()
                for r in rets:
                    if isinstance(r, AV):
                        out |= r.cls
                    else:
                        return AV(ALLC)
                return AV(out or ALLC)
            return AV(ALLC) if self.is_float(e) else AV(FINITE)
        if not self.is_float(e):
            return AV(FINITE)
        return AV(ALLC)

    def same(self, a, b, env):
        a, b = strip_casts(a), strip_casts(b)
        pure = all(x.get('k') not in ('call',) and not (x.get('k') == 'un' and '++' in x.get('op', '') or x.get('k') == 'un' and '--' in x.get('op', ''))
                   for e in (a, b) for x in walk(e))
        return pure and expr_str(a) == expr_str(b)

    def arg(self, a, env):
        if self.is_float(strip_casts(a)) or self.is_float(a):
            return self.fv(a, env)
        t = self.tv(a, env)
        return t

    # ---- truth values
    def tv(self, e, env):
        """frozenset of truth values, or UNKNOWN"""
        e = strip_casts(e)
        k = e.get('k')
        v = const_val(e)
        if v is not None:
            return frozenset([v != 0])
        if k == 'float':
            return frozenset([float(e['fval']) != 0])
        if k == 'un' and e['op'] == '!':
            t = self.tv(e['e'], env)
            return t if t is UNKNOWN else frozenset(not x for x in t)
        if k == 'bin' and e['op'] in ('&&', '||'):
            l = self.tv(e['l'], env)
            r = self.tv(e['r'], env)
            if l is UNKNOWN or r is UNKNOWN:
                # a side that settles the result alone still does
                short = (e['op'] == '||')
                for t in (l, r):
                    if t is not UNKNOWN and t == frozenset([short]) and t is l:
                        return frozenset([short])
                return UNKNOWN
            out = set()
            for a in l:
                if e['op'] == '&&':
                    out |= ({False} if not a else set(r))
                else:
                    out |= ({True} if a else set(r))
            return frozenset(out)
        if k == 'bin' and e['op'] in ('<', '<=', '>', '>=', '==', '!='):
            lf, rf = self.is_float(strip_casts(e['l'])) or self.is_float(e['l']), self.is_float(strip_casts(e['r'])) or self.is_float(e['r'])
            if lf or rf:
                l, r = self.fv(e['l'], env), self.fv(e['r'], env)
                if self.same(e['l'], e['r'], env) and e['op'] in ('==', '!='):
                    out = set()
                    for c in l.cls:
                        out.add((c == 'nan') == (e['op'] == '!='))
                    return frozenset(out)
                return compare(e['op'], l, r)
            # integers: a truth value compared with zero
            for (x, y) in ((e['l'], e['r']), (e['r'], e['l'])):
                if const_val(y) == 0 and e['op'] in ('==', '!='):
                    t = self.tv(x, env)
                    if t is UNKNOWN:
                        return UNKNOWN
                    return t if e['op'] == '!=' else frozenset(not b for b in t)
            return UNKNOWN if self.mentions(e, env) else BOTH
        if k == 'cond':
            c = self.tv(e['c'], env)
            if c is UNKNOWN:
                return UNKNOWN
            out = set()
            for b in c:
                t = self.tv(e['t'] if b else e['e'], env)
                if t is UNKNOWN:
                    return UNKNOWN
                out |= t
            return frozenset(out)
        if k == 'ref':
            x = env.get(e.get('d'))
            if isinstance(x, frozenset):
                return x
            if isinstance(x, AV) or self.is_float(e):
                x = x if isinstance(x, AV) else AV(ALLC)
                return compare('!=', x, av_const(0.0))
            return UNKNOWN if e.get('d') in env.get('@tainted', ()) else BOTH
        if k == 'call':
            cn = callee_name(e)
            if cn in ISNAN | ISINF | ISFINITE and len(e['args']) == 1:
                x = self.fv(e['args'][0], env)
                want = {'nan'} if cn in ISNAN else ({'pinf', 'ninf'} if cn in ISINF else FINITE)
                return frozenset((c in want) for c in x.cls)
            h = self.u.functions.get(cn)
            if h is not None and h.static and h.body is not None and self.depth < 4:
                rets = self.run(h, [self.arg(a, env) for a in e['args']])
                out = set()
                for r in rets:
                    if isinstance(r, frozenset):
                        out |= r
                    elif isinstance(r, AV):
                        out |= compare('!=', r, av_const(0.0))
                    else:
                        return UNKNOWN
                return frozenset(out) if out else UNKNOWN
            return UNKNOWN if self.mentions(e, env) else BOTH
        if self.is_float(e):
            return compare('!=', self.fv(e, env), av_const(0.0))
        return UNKNOWN if self.mentions(e, env) else BOTH

    # ---- a static helper, all paths
    def run(self, h, args):
        self.depth += 1
        try:
            env = {}
            tainted = set()
            for p, a in zip(h.params, args):
                env[p['d']] = a
                if a is UNKNOWN:
                    tainted.add(p['d'])
                    del env[p['d']]
            env['@tainted'] = frozenset(tainted)
            cfg = h.cfg()
            rets = []
            seen = set()
            work = [(cfg.entry.id, env)]
            steps = 0
            while work:
                nid, env = work.pop()
                key = (nid, _envkey(env))
                if key in seen:
                    continue
                seen.add(key)
                steps += 1
                if steps > 5000:
                    raise AnalysisBroken('NUM1: helper %s does not finish' % h.name)
                node = cfg.nodes[nid]
                if node.kind == 'return':
                    if node.expr is None:
                        rets.append(None)
                    elif self.is_float(strip_casts(node.expr)) or self.is_float(node.expr):
                        rets.append(self.fv(node.expr, env))
                    else:
                        rets.append(self.tv(node.expr, env))
                    continue
                env = self.step(node, env)
                for (y, label) in cfg.succ[nid]:
                    if node.kind == 'branch' and label is not None and label[0] in ('T', 'F'):
                        t = self.tv(label[1], env)
                        if t is not UNKNOWN and (label[0] == 'T') not in t:
                            continue
                    work.append((y, env))
            return rets
        finally:
            self.depth -= 1

    def step(self, node, env):
        """decl inits and plain assignments to scalars"""
        def bind(d, ty, rhs, env):
            env = dict(env)
            t = self.u.ty(ty)
            if t['c'] == 'float':
                env[d] = self.fv(rhs, env)
            elif t['c'] in ('int', 'bool'):
                tv = self.tv(rhs, env)
                if tv is UNKNOWN:
                    env.pop(d, None)
                    env['@tainted'] = frozenset(env.get('@tainted', frozenset()) | {d})
                else:
                    env[d] = tv
            return env
        if node.kind == 'decl':
            if 'init' in node.decl:
                return bind(node.decl['d'], node.decl['ty'], node.decl['init'], env)
            return env
        if node.expr is None:
            return env
        for x in walk(node.expr):
            if x.get('k') == 'bin' and x.get('op') == '=' and strip_casts(x['l']).get('k') == 'ref':
                l = strip_casts(x['l'])
                env = bind(l['d'], l.get('ty0', l['ty']), x['r'], env)
            elif x.get('k') == 'bin' and x.get('op', '').endswith('=') and x['op'] not in ('==', '!=', '<=', '>=') and \
                    strip_casts(x['l']).get('k') == 'ref':
                env = dict(env)
                env.pop(strip_casts(x['l'])['d'], None)
            elif x.get('k') == 'un' and x.get('op') == '&' and strip_casts(x['e']).get('k') == 'ref':
                env = dict(env)
                env.pop(strip_casts(x['e'])['d'], None)      # address handed out (sscanf(..., &test)): forget the value
        return env


def _envkey(env):
    return tuple(sorted((str(k), repr(v)) for k, v in env.items()))


def _literal_args(c, fn=None):
    out = []
    for a in c['args']:
        a0 = strip_casts(a)
        if a0.get('k') == 'str':
            out.append(bytes(a0['bytes']).split(b'\0')[0])
        elif a0.get('k') == 'ref' and fn is not None:
            # a constant array spelled as a string literal (static const char word[] = "null")
            for d in fn.locals():
                if d.get('d') == a0.get('d') and 'init' in d and strip_casts(d['init']).get('k') == 'str' and \
                        not any(x.get('k') == 'bin' and x['op'] in ASSIGN_OPS and any(
                            y.get('k') == 'ref' and y.get('d') == d['d'] for y in walk(x['l'])) for x in fn.nodes()):
                    out.append(bytes(strip_casts(d['init'])['bytes']).split(b'\0')[0])
    return out


def num1(units, R):
    u = units['cJSON.c']
    fn = u.fn('print_number')
    cfg = fn.cfg()
    FIELD = 'valuedouble'
    if not any(x.get('k') == 'mem' and x.get('f') == FIELD for x in fn.nodes()):
        raise AnalysisBroken('NUM1: print_number does not read ->%s' % FIELD)
    null_nodes, fmt_nodes = set(), set()
    for n in cfg.nodes:
        root = n.expr if n.expr is not None else (n.decl.get('init') if n.kind == 'decl' and n.decl else None)
        if root is None:
            continue
        for c in walk(root):
            if c.get('k') != 'call':
                continue
            lits = _literal_args(c, fn)
            if b'null' in lits:
                null_nodes.add(n.id)
            elif any(b'%' in l for l in lits) and callee_name(c) in ('sprintf', 'snprintf', '__builtin___sprintf_chk', '__sprintf_chk',
                                                                       '__builtin___snprintf_chk'):
                fmt_nodes.add(n.id)
    # a literal copied through a static helper (print_literal-like): the caller passes "null"
    if not null_nodes:
        raise AnalysisBroken('NUM1: no statement of print_number writes the literal null')
    if not fmt_nodes:
        raise AnalysisBroken('NUM1: no numeric conversion found in print_number')
    R.floor('NUM1', 'numeric conversions in print_number', len(fmt_nodes), 1)
    ev = Eval(u, FIELD)
    for c in CLASSES:
        env0 = {'@value': AV([c]), '@tainted': frozenset()}
        seen = set()
        work = [(cfg.entry.id, env0, False, False, False)]     # node, env, wrote null, converted, crossed an undecided condition
        reached_null = False
        reached_fmt = None
        unk_null = unk_fmt = False
        steps = 0
        while work:
            nid, env, wn, wf, unk = work.pop()
            key = (nid, _envkey(env), wn, wf, unk)
            if key in seen:
                continue
            seen.add(key)
            steps += 1
            if steps > 20000:
                raise AnalysisBroken('NUM1: paths of print_number do not finish')
            node = cfg.nodes[nid]
            if nid in null_nodes:
                reached_null = True
                unk_null = unk_null or unk
                wn = True
            if nid in fmt_nodes:
                if reached_fmt is None or not unk:
                    reached_fmt = node.line
                    unk_fmt = unk if reached_fmt == node.line else unk_fmt
                wf = True
            if node.kind == 'return':
                continue
            env = ev.step(node, env)
            for (y, label) in cfg.succ[nid]:
                u2 = unk
                if node.kind == 'branch' and label is not None and label[0] in ('T', 'F'):
                    t = ev.tv(label[1], env)
                    if t is UNKNOWN:
                        u2 = True
                    elif (label[0] == 'T') not in t:
                        continue
                work.append((y, env, wn, wf, u2))
        name = {'nan': 'NaN', 'pinf': '+Infinity', 'ninf': '-Infinity', 'pos': 'a finite positive number', 'neg': 'a finite negative number',
                'zero': 'zero'}[c]
        if c in ('nan', 'pinf', 'ninf'):
            if reached_fmt is not None and unk_fmt:
                raise AnalysisBroken('NUM1: whether %s reaches the conversion at line %d depends on a condition the class domain cannot decide' % (name, reached_fmt))
            R.ob('NUM1', fn, None, '%s is never formatted as a number' % name, reached_fmt is None,
                 'no path with this value reaches a numeric conversion' if reached_fmt is None else
                 'the conversion at line %d is reached: the text would be nan/inf, which is not JSON' % reached_fmt, key='nonfinite-format:' + c)
            R.ob('NUM1', fn, None, '%s is printed as null' % name, reached_null,
                 'the null literal is written' if reached_null else 'no path writes null for this value', key='nonfinite-null:' + c)
        else:
            if reached_null and unk_null:
                raise AnalysisBroken('NUM1: whether %s is printed as null depends on a condition the class domain cannot decide' % name)
            R.ob('NUM1', fn, None, '%s is not printed as null' % name, not reached_null,
                 'the null literal is unreachable for this value' if not reached_null else 'a finite number is replaced by null', key='finite-null:' + c)


# ---- NUM4: the tolerance comparison over the classes of doubles ---------------------------------------------------------------------

def num4(units, R, unit_names=('cJSON.c', 'cJSON_Utils.c'), fn_name='compare_double'):
    """compare_double(a, b) evaluated in the class domain for every pair of classes of its two operands: a NaN equals nothing, an
    infinite number does not equal a finite one nor the other infinity (a relative tolerance computed from an infinite operand is
    itself infinite and would accept everything), and zero equals zero.  What two finite numbers of the same sign compare to is
    a matter of their values and is not judged."""
    n = 0
    for un in unit_names:
        u = units.get(un)
        if u is None:
            continue
        fn = u.functions.get(fn_name)
        if fn is None or fn.body is None or len(fn.params) != 2:
            raise AnalysisBroken('NUM4: %s(a, b) not found in %s' % (fn_name, un))
        ev = Eval(u, None)
        name = {'nan': 'NaN', 'pinf': '+inf', 'ninf': '-inf', 'pos': 'a positive finite number', 'neg': 'a negative finite number', 'zero': 'zero'}
        bad = []
        undecided = []
        for a in CLASSES:
            for b in CLASSES:
                must = None
                if a == 'nan' or b == 'nan':
                    must = False
                elif (a in ('pinf', 'ninf')) != (b in ('pinf', 'ninf')):
                    must = False
                elif {a, b} == {'pinf', 'ninf'}:
                    must = False
                elif a == b == 'zero':
                    must = True
                elif {a, b} == {'pos', 'neg'} or (a == 'zero') != (b == 'zero'):
                    must = False if False else None      # opposite signs / zero against non-zero: unequal, but the class domain has no room to show it
                if must is None:
                    continue
                n += 1
                rets = ev.run(fn, [AV([a]), AV([b])])
                vals = set()
                for r in rets:
                    if r is UNKNOWN or r is None or isinstance(r, AV):
                        vals = None
                        break
                    vals |= set(r)
                if vals is None:
                    undecided.append((a, b))
                elif vals != {must}:
                    bad.append((a, b, must, vals))
        if undecided and not bad:
            raise AnalysisBroken('NUM4: what %s returns for %s against %s cannot be decided in the class domain' % (
                fn_name, name[undecided[0][0]], name[undecided[0][1]]))
        R.ob('NUM4', fn, None, 'the tolerance comparison treats the non-finite numbers as RFC-less values that equal nothing else', not bad,
             '25 pairs of operand classes' if not bad else '%s compared with %s can come out %s (%d of the judged pairs wrong): the tolerance '
             'is the larger magnitude times DBL_EPSILON, which is infinite for an infinite operand' % (
                 name[bad[0][0]], name[bad[0][1]], 'equal' if bad[0][3] != {False} else 'unequal', len(bad)), key='classes:' + un)
    R.floor('NUM4', 'pairs of operand classes judged', n, 20)
