"""Rules about the parser's structure: TAB1 recursion gates, TAB2 entry-point funnel, BND5/C10 structure of the
failure path, BND6 loop progress, TAB4 literal triples, TAB5a escape table, TAB6 UTF-16/UTF-8 constants,
TAB7 saturation template."""
import re

from ..facts import (AnalysisBroken, walk, strip_casts, expr_str, is_null_const, const_val, ASSIGN_OPS, CMP_OPS,
                     callee_name, call_graph, qname)
from ..dataflow import node_effects, access
from .common import (all_functions, assignments, is_ref, is_mem, cmp_parts, region_without_edges, guarded_by,
                     node_containing, find_function)

# ---- TAB1 recursion gates -----------------------------------------------------------------------------

LIMIT_MACROS = ('CJSON_NESTING_LIMIT', 'CJSON_CIRCULAR_LIMIT')
# recursion that is bounded only by the shape of the tree it walks (listed, not claimed)
TREE_BOUNDED = {
    'cJSON_Delete': 'walks an existing tree; depth bounded by what the parser/duplicator allow',
    'print_value': 'walks an existing tree', 'print_array': 'walks an existing tree', 'print_object': 'walks an existing tree',
    'cJSON_Compare': 'walks two existing trees',
    'cJSONUtils_FindPointerFromObjectTo': 'walks an existing tree', 'sort_list': 'halves the list each level',
    'compare_json': 'walks two existing trees', 'create_patches': 'walks two existing trees',
    'merge_patch': 'walks the patch tree', 'generate_merge_patch': 'walks two existing trees',
}


def _sccs(graph, nodes):
    index = {}
    low = {}
    stack = []
    on = set()
    out = []
    counter = [0]

    def strong(v):
        work = [(v, iter(sorted(graph.get(v, ()))))]
        index[v] = low[v] = counter[0]
        counter[0] += 1
        stack.append(v)
        on.add(v)
        while work:
            node, it = work[-1]
            adv = False
            for w in it:
                if w not in nodes:
                    continue
                if w not in index:
                    index[w] = low[w] = counter[0]
                    counter[0] += 1
                    stack.append(w)
                    on.add(w)
                    work.append((w, iter(sorted(graph.get(w, ())))))
                    adv = True
                    break
                elif w in on:
                    low[node] = min(low[node], index[w])
            if adv:
                continue
            work.pop()
            if work:
                low[work[-1][0]] = min(low[work[-1][0]], low[node])
            if low[node] == index[node]:
                comp = []
                while True:
                    w = stack.pop()
                    on.discard(w)
                    comp.append(w)
                    if w == node:
                        break
                out.append(comp)
    for v in sorted(nodes):
        if v not in index:
            strong(v)
    return out


def _has_macro(e, names):
    for x in walk(e):
        for m in (x.get('m') or []):
            if m in names:
                return m
    return None


def _gate_in(u, fn, scc_names):
    """Is fn a recursion gate for calls into scc_names?  Returns (ok, description, details)."""
    cfg = fn.cfg()
    rec_calls = [c for c in fn.calls() if callee_name(c) in scc_names]
    if not rec_calls:
        return None
    # candidate gate branches: comparison of a counter with a limit macro
    gates = []
    for n in cfg.nodes:
        if n.kind != 'branch':
            continue
        e = strip_casts(n.expr)
        if e.get('k') != 'bin' or e['op'] not in ('>=', '>', '<', '<='):
            continue
        ml, mr = _has_macro(e['l'], LIMIT_MACROS), _has_macro(e['r'], LIMIT_MACROS)
        if mr and not ml:
            counter, lim, op = strip_casts(e['l']), e['r'], e['op']
        elif ml and not mr:
            counter, lim, op = strip_casts(e['r']), e['l'], {'>=': '<=', '>': '<', '<': '>', '<=': '>='}[e['op']]
        else:
            continue
        if const_val(lim) is None:
            continue
        # the edge on which recursion may continue: counter < limit
        cont = 'F' if op in ('>=', '>') else 'T'
        gates.append((n, counter, cont, mr or ml, op))
    if not gates:
        return (False, 'no comparison of a depth counter against %s' % '/'.join(LIMIT_MACROS), [])
    details = []
    allok = True
    for c in rec_calls:
        node = node_containing(cfg, c)
        ok = False
        why = 'recursive call %s not guarded by a depth test' % callee_name(c)
        for (g, counter, cont, macro, op) in gates:
            cs = expr_str(counter)
            # 1. the call is reachable only through the continue edge of the gate
            if not guarded_by(cfg, node.id, lambda nn, l, g=g, cont=cont: nn.id == g.id and l is not None and l[0] == cont):
                # a path around the test may exist in the graph only: `if ((child != NULL) && (depth >= LIMIT)) fail;` in front of
                # `while (child != NULL) { recurse }` is bypassed through child == NULL, with which the loop is not entered.
                # The test counts when no path with consistent branch outcomes reaches the call without passing its continue edge.
                from .common import feasibly_reaches
                cont_targets = {y for (y, l) in cfg.succ[g.id] if l is not None and l[0] == cont}

                def barrier(nn, l, g=g):
                    return nn.id == g.id          # paths through the gate are fine: look for one that never touches it
                if feasibly_reaches(cfg, fn, node.id, barrier):
                    continue
            # 2. the refusing edge reaches a return without passing a recursive call
            # 3. the counter grows: field counter incremented between gate and call, or parameter passed + k
            grows = None
            if counter.get('k') == 'ref' and counter.get('dk') == 'param':
                pi = [i for i, p in enumerate(fn.params) if p['d'] == counter['d']]
                tgt = callee_name(c)
                if tgt == fn.name and pi:
                    a = strip_casts(c['args'][pi[0]])
                    if a.get('k') == 'ref' and a.get('dk') == 'local':
                        # the next level's depth computed once into a local that is never changed (child_depth = depth + 1)
                        ds_ = [d_['init'] for d_ in fn.locals() if d_['d'] == a['d'] and 'init' in d_ and const_val(d_['init']) is None]
                        as_ = [x_ for x_ in assignments(fn) if is_ref(x_['l']) and strip_casts(x_['l'])['d'] == a['d']]
                        ds_ += [x_['r'] if x_['op'] == '=' else None for x_ in as_]
                        ds_ += [None for x_ in fn.nodes() if x_.get('k') == 'un' and x_.get('op') in ('post++', 'pre++', 'post--', 'pre--', '&') and
                                is_ref(x_['e']) and strip_casts(x_['e'])['d'] == a['d']]
                        if len(ds_) == 1 and ds_[0] is not None and (not as_ or cfg.dominates(node_containing(cfg, as_[0]).id, node.id)):
                            a = strip_casts(ds_[0])
                    if a.get('k') == 'bin' and a['op'] == '+' and is_ref(a['l']) and strip_casts(a['l'])['d'] == counter['d'] \
                            and (const_val(a['r']) or 0) >= 1:
                        grows = 'passes %s' % expr_str(a)
                    else:
                        why = 'recursive call passes %s for the depth parameter (must be %s + k, k >= 1)' % (expr_str(a), cs)
            else:
                incs = set()
                for n2 in cfg.nodes:
                    for ev in node_effects(n2):
                        if ev.kind == 'incdec' and ev.delta > 0 and expr_str(ev.lhs) == cs:
                            incs.add(n2.id)
                        if ev.kind == 'store' and ev.node['op'] == '+=' and expr_str(ev.lhs) == cs and (const_val(ev.node['r']) or 0) >= 1:
                            incs.add(n2.id)
                if incs:
                    # every path gate -> call passes an increment
                    start = [y for (y, l) in cfg.succ[g.id] if l and l[0] == cont]
                    reach = set()
                    for s0 in start:
                        if s0 in incs:
                            continue
                        reach |= cfg.reachable(s0, stop=incs) | {s0}
                    if node.id not in reach:
                        grows = 'increments %s on every path from the test to the call' % cs
                        # the same buffer must be handed down
                        if counter.get('k') == 'mem':
                            base = strip_casts(counter['b'])
                            handed = any(expr_str(strip_casts(a)) == expr_str(base) for a in c['args'])
                            if not handed:
                                grows = None
                                why = 'recursive call does not pass %s (the counter would restart)' % expr_str(base)
                    else:
                        why = 'a path from the depth test to the recursive call skips the increment of %s' % cs
                else:
                    why = 'depth counter %s is never incremented' % cs
            if grows:
                ok = True
                why = 'guarded by %s %s %s; %s' % (cs, op, macro, grows)
                break
            if counter.get('k') == 'mem':
                # guarded here; the increment may sit in the function that is called (checked per cycle by the caller)
                ok = 'guard-only'
                why = 'guarded by %s %s %s; the counter is incremented elsewhere on the cycle' % (cs, op, macro)
                counter_field = counter['f']
                break
        details.append((c, ok, why))
        allok = allok and bool(ok)
    return (allok, 'gate', details)


def _increments_before_recursion(u, fn, scc_names, field='depth'):
    """every call of fn into the cycle is reached only after an increment of <buffer>->field, and that buffer is handed on"""
    cfg = fn.cfg()
    rec_calls = [c for c in fn.calls() if callee_name(c) in scc_names]
    if not rec_calls:
        return None
    incs = {}
    for n2 in cfg.nodes:
        for ev in node_effects(n2):
            l = strip_casts(ev.lhs) if ev.kind in ('incdec', 'store') else None
            if l is None or l.get('k') != 'mem' or l['f'] != field:
                continue
            if (ev.kind == 'incdec' and ev.delta > 0) or (ev.kind == 'store' and ev.node['op'] == '+=' and (const_val(ev.node['r']) or 0) >= 1):
                incs.setdefault(expr_str(strip_casts(l['b'])), set()).add(n2.id)
    for base, nodes in incs.items():
        before = cfg.reachable(cfg.entry.id, stop=nodes) | {cfg.entry.id}
        if all(node_containing(cfg, c).id not in before and any(expr_str(strip_casts(a)) == base for a in c['args']) for c in rec_calls):
            return True
    return False


def tab1(units, R, unit_name='cJSON.c', claim=('parse_value', 'cJSON_Duplicate_rec')):
    """Every call-graph cycle through a claimed function passes a depth gate."""
    u = units[unit_name]
    g = {}
    for fn in u.function_list:
        g[fn.name] = {callee_name(c) for c in fn.calls() if callee_name(c) in u.functions}
    sccs = [c for c in _sccs(g, set(g)) if len(c) > 1 or c[0] in g.get(c[0], ())]
    # a claimed function that hands its recursion to a helper the pinned tree does not have (duplicate_children) claims that
    # helper's cycle
    from ..extract import known_functions
    known = set(known_functions().get(unit_name, ()))
    claim = set(claim)
    if known:
        work = [c for c in claim if c in g]
        seen_ = set(work)
        while work:
            x = work.pop()
            for y in g.get(x, ()):
                if y not in seen_ and y not in known and u.functions[y].static:
                    seen_.add(y)
                    work.append(y)
        in_cycle = {n for c in sccs for n in c}
        for c0 in list(claim):
            if c0 in g and c0 not in in_cycle:
                claim |= {y for y in seen_ if y in in_cycle and y not in known}
    nclaimed = len([c for c in claim if c in known or not known])
    ncl = 0
    for comp in sccs:
        names = set(comp)
        if not (names & set(claim)):
            for n in sorted(names):
                R.note('TAB1: recursion through %s is not part of a claimed cycle (%s)' % (
                    n, TREE_BOUNDED.get(n, 'walks an existing tree / list; not claimed')))
            continue
        ncl += 1
        gate_fns = set()
        grow_fns = set()
        guard_only = False
        for n in sorted(names):
            res = _gate_in(u, u.functions[n], names)
            if res is None:
                continue
            ok, _d, details = res
            for (c, cok, why) in details:
                R.ob('TAB1', u.functions[n], c, 'recursive call %s is depth-gated' % callee_name(c), bool(cok), why,
                     key='gate:%s' % callee_name(c))
                guard_only = guard_only or cok == 'guard-only'
            if ok and details:
                gate_fns.add(n)
                if all(cok is True for (_c, cok, _w) in details):
                    grow_fns.add(n)        # gate and increment in the same function
        for n in sorted(names):
            if _increments_before_recursion(u, u.functions[n], names):
                grow_fns.add(n)
        # removing the gate functions must break every cycle, and so must removing the functions that increment the counter
        for (what, fns, key) in (('passes a gate', gate_fns, 'cycle'), ('increments the depth counter', grow_fns, 'cycle-grows')):
            rest = names - fns
            g2 = {n: {m for m in g[n] if m in rest} for n in rest}
            left = [c for c in _sccs(g2, set(g2)) if len(c) > 1 or c[0] in g2.get(c[0], ())]
            if left and not fns:
                # no gate anywhere in the cycle: is the recursion bounded by a walk over the same tree that every entry makes first
                # (if (nests_deeper_than(item, LIMIT)) return NULL; return duplicate_item(item))?  Whether that walk visits what the
                # cycle visits is not something this rule decides: the code is outside what TAB1 models, not a violation of it
                for caller in u.function_list:
                    if caller.name in names or caller.body is None:
                        continue
                    ccfg = None
                    for c_in in caller.calls():
                        if callee_name(c_in) not in names or not c_in.get('args'):
                            continue
                        a0 = expr_str(strip_casts(c_in['args'][0]))
                        for c_pre in caller.calls():
                            pn = callee_name(c_pre)
                            if pn in names or pn not in u.functions or pn in known or not c_pre.get('args'):
                                continue
                            if expr_str(strip_casts(c_pre['args'][0])) != a0 or pn not in g.get(pn, ()):
                                continue
                            ccfg = ccfg or caller.cfg()
                            n_pre, n_in = ccfg.node_of_expr(c_pre['id']), ccfg.node_of_expr(c_in['id'])
                            if n_pre is not None and n_in is not None and n_in.id in ccfg.reachable(n_pre.id):
                                raise AnalysisBroken('TAB1: the recursion of %s has no depth gate of its own; %s walks the same tree with %s '
                                                     'first, a bound this rule does not model' % (sorted(names)[0], caller.name, pn))
            R.ob('TAB1', u.functions[sorted(names)[0]], None, 'every cycle of {%s} %s' % (', '.join(sorted(names)), what),
                 not left, '%s' % sorted(fns) if not left else 'a cycle through %s does not' % sorted(left[0]),
                 key=key + ':' + ','.join(sorted(names)))
    R.floor('TAB1', 'gated recursion cycles', ncl, nclaimed)


def tab1_depth_balance(units, R):
    """The parser's depth counter is decremented on every path from its increment to a successful return
    (otherwise siblings would be counted as nesting)."""
    u = units['cJSON.c']
    n = 0
    for fn in u.function_list:
        cfg = None
        for x in fn.nodes():
            if x.get('k') == 'un' and x['op'] in ('post++', 'pre++') and is_mem(x['e'], 'depth'):
                b = strip_casts(strip_casts(x['e'])['b'])
                if not (b.get('k') == 'ref' and b.get('dk') == 'param'):
                    continue
                ty = u.ty(b['ty'])['s']
                if 'parse_buffer' not in ty:
                    continue
                cfg = cfg or fn.cfg()
                cs = expr_str(x['e'])
                inc = node_containing(cfg, x)
                decs = set()
                for n2 in cfg.nodes:
                    for ev in node_effects(n2):
                        if ev.kind == 'incdec' and ev.delta < 0 and expr_str(ev.lhs) == cs:
                            decs.add(n2.id)
                reach = cfg.reachable(inc.id, stop=decs)
                bad = [r for r in cfg.returns() if r.id in reach and r.expr is not None and const_val(r.expr) not in (0, None)]
                n += 1
                R.ob('TAB1', fn, x, 'depth increment %s is undone before every successful return' % cs, not bad,
                     'every path to a true return passes a decrement' if not bad else
                     'return at line %d reached without decrement' % bad[0].line, key='balance:' + cs)
    R.floor('TAB1', 'depth increments', n, 1)


# ---- TAB2 parse funnel -------------------------------------------------------------------------------------

def tab2_parse(units, R):
    u = units['cJSON.c']
    core = u.fn('cJSON_ParseWithLengthOpts')
    chain = {
        'cJSON_Parse': 'cJSON_ParseWithOpts',
        'cJSON_ParseWithOpts': 'cJSON_ParseWithLengthOpts',
        'cJSON_ParseWithLength': 'cJSON_ParseWithLengthOpts',
    }
    for name, target in chain.items():
        fn = u.fn(name)
        calls = [c for c in fn.calls() if callee_name(c) in u.functions]
        ok = len(calls) == 1 and callee_name(calls[0]) == target
        R.ob('TAB2', fn, None, '%s only forwards to %s' % (name, target), ok,
             'single internal call' if ok else 'calls %s' % [callee_name(c) for c in calls], key='funnel:' + name)
        if not ok:
            continue
        c = calls[0]
        tparams = [p['n'] for p in u.fn(target).params]
        for i, a in enumerate(c['args']):
            a0 = strip_casts(a)
            pname = tparams[i]
            own = fn.param(pname)
            if own is not None:
                good = a0.get('k') == 'ref' and a0.get('d') == own['d']
                R.ob('TAB2', fn, c, '%s forwards its %s unchanged' % (name, pname), good,
                     expr_str(a0), key='fwd:%s:%s' % (name, pname))
            elif pname == 'buffer_length':
                # strlen(value) + sizeof("")
                lin = None
                val = fn.param('value')
                defs = [x for x in assignments(fn) if is_ref(x['l']) and a0.get('k') == 'ref' and strip_casts(x['l'])['d'] == a0['d']]
                src = defs[0]['r'] if len(defs) == 1 else a0
                s = strip_casts(src)
                good = False
                if s.get('k') == 'bin' and s['op'] == '+':
                    l, r = strip_casts(s['l']), strip_casts(s['r'])
                    for (x, y) in ((l, s['r']), (r, s['l'])):
                        if x.get('k') == 'call' and callee_name(x) == 'strlen' and is_ref(x['args'][0]) and \
                                strip_casts(x['args'][0])['d'] == val['d'] and const_val(y) == 1:
                            good = True
                R.ob('TAB2', fn, c, '%s passes strlen(value) + 1 as the buffer length' % name, good,
                     expr_str(s), key='len:' + name)
                # strlen is only reached with a non-NULL value
                cfg = fn.cfg()
                sl = [x for x in fn.calls() if callee_name(x) == 'strlen']
                for x in sl:
                    node = node_containing(cfg, x)

                    def nonnull_edge(nn, l):
                        if nn.kind != 'branch' or l is None:
                            return False
                        p = strip_casts(nn.expr)
                        if p.get('k') == 'bin' and p['op'] in ('==', '!='):
                            other = p['l'] if is_null_const(p['r']) else (p['r'] if is_null_const(p['l']) else None)
                            if other is not None and is_ref(other) and strip_casts(other)['d'] == val['d']:
                                return (p['op'] == '!=') == (l[0] == 'T')
                        return False
                    g = guarded_by(cfg, node.id, nonnull_edge)
                    R.ob('TAB2', fn, x, 'strlen(value) only after value != NULL', g, '', key='strlen-null:' + name)
            else:
                v = const_val(a)
                good = v == 0 or is_null_const(a)
                R.ob('TAB2', fn, c, '%s passes 0 for %s' % (name, pname), good, expr_str(a0), key='zero:%s:%s' % (name, pname))
    R.floor('TAB2', 'parse entry points', len(chain) + 1, 4)


# ---- C10 structure of success/failure publication -------------------------------------------------------------

def c10_structure(units, R):
    u = units['cJSON.c']
    fn = u.fn('cJSON_ParseWithLengthOpts')
    cfg = fn.cfg()
    # the global error object: global of a record type with fields json/position
    gerr = None
    for g in u.globals:
        t = u.ty(g['ty'])
        rec = u.records.get(t['s'].replace('struct ', ''))
        if rec and {f['n'] for f in rec['fields']} == {'json', 'position'}:
            gerr = g
    if gerr is None:
        raise AnalysisBroken('C10: global error object not found')
    gname = gerr['n']
    rets = cfg.returns()
    ok_rets = [r for r in rets if r.expr is not None and not is_null_const(r.expr)]
    fail_rets = [r for r in rets if r.expr is not None and is_null_const(r.expr)]
    if not ok_rets or not fail_rets:
        raise AnalysisBroken('C10: success/failure returns of %s not found' % fn.name)

    def stores_to_global(n):
        out = []
        for ev in node_effects(n):
            if ev.kind == 'store':
                b = strip_casts(ev.lhs)
                while b.get('k') == 'mem' and not b['arrow']:
                    b = strip_casts(b['b'])
                if b.get('k') == 'ref' and b['n'] == gname and b.get('dk') == 'global':
                    out.append(ev)
        return out
    resets = {}
    others = []
    for n in cfg.nodes:
        for ev in stores_to_global(n):
            l = strip_casts(ev.lhs)
            if l.get('k') == 'mem' and ev.node['op'] == '=' and (is_null_const(ev.node['r']) or const_val(ev.node['r']) == 0):
                resets.setdefault(l['f'], []).append(n)
            else:
                others.append((n, ev))
    # reset dominates every return
    for f in ('json', 'position'):
        ns = resets.get(f, [])
        for r in rets:
            ok = any(cfg.dominates(n.id, r.id) for n in ns)
            R.ob('C10R', fn, r.stmt, 'reset of %s.%s dominates the return at line %d' % (gname, f, r.line), ok,
                 'reset at line %s' % [n.line for n in ns], key='reset:%s:%s' % (f, 'ok' if r in ok_rets else 'fail'))
    # no other store to the global error can reach a successful return
    for (n, ev) in others:
        for r in ok_rets:
            reach = r.id in cfg.reachable(n.id)
            R.ob('C10R', fn, ev.node, 'store %s cannot reach the successful return' % expr_str(ev.node)[:50], not reach,
                 'only on the failure path' if not reach else 'cJSON_GetErrorPtr() would be non-NULL after success',
                 key='errstore:' + expr_str(ev.node)[:50])
    R.floor('C10R', 'stores publishing the error', len(others), 1)
    # failure path: both outputs computed from one object with no redefinition in between
    rpe = fn.param('return_parse_end')
    if rpe is None:
        raise AnalysisBroken('C10: parameter return_parse_end not found')
    pubs = []
    for n in cfg.nodes:
        for ev in node_effects(n):
            if ev.kind == 'store':
                l = strip_casts(ev.lhs)
                if l.get('k') == 'un' and l['op'] == '*' and is_ref(l['e']) and strip_casts(l['e'])['d'] == rpe['d']:
                    pubs.append((n, ev))
    fail_pubs = [(n, ev) for (n, ev) in pubs if any(r.id in cfg.reachable(n.id) for r in fail_rets)
                 and not any(r.id in cfg.reachable(n.id) for r in ok_rets)]
    ok_pubs = [(n, ev) for (n, ev) in pubs if (n, ev) not in fail_pubs]
    R.floor('C10P', 'stores to *return_parse_end', len(pubs), 2)
    # Every path to a failing return is followed with symbolic values (linear expressions over the parameters and over what the
    # parse buffer holds after each call): where the path stores *return_parse_end, the stored pointer equals
    # <global>.json + <global>.position as the path leaves them, and <global>.json is the caller's buffer.
    from .outsym import Lin
    val = fn.param('value')

    class _S(object):
        pass

    def _copy(st):
        s2 = _S()
        s2.env, s2.fld, s2.glob, s2.pub, s2.truth, s2.ver = dict(st.env), dict(st.fld), dict(st.glob), st.pub, dict(st.truth), st.ver
        return s2
    locals_rec = {d['d']: d['n'] for d in fn.locals() if u.ty(d['ty'])['c'] in ('record', 'array')}
    pnames = {p['d']: p['n'] for p in fn.params}

    def _root(e):
        e = strip_casts(e)
        path = []
        while e.get('k') == 'mem' and not e.get('arrow'):
            path.append(e['f'])
            e = strip_casts(e['b'])
        if e.get('k') == 'mem' and e.get('arrow'):
            b = strip_casts(e['b'])
            if b.get('k') == 'un' and b['op'] == '&':
                path.append(e['f'])
                e = strip_casts(b['e'])
        return e, tuple(reversed(path))

    def _ev(e, st):
        c = const_val(e)
        if c is not None:
            return Lin(c)
        if is_null_const(e):
            return Lin(0)
        e = strip_casts(e)
        k = e.get('k')
        if k == 'ref':
            if e.get('d') in pnames:
                return st.env.get(e['d'], Lin(0, {pnames[e['d']]: 1}))
            return st.env.get(e.get('d'))
        if k == 'mem':
            r0, path = _root(e)
            if r0.get('k') == 'ref' and path:
                if r0.get('dk') == 'global' and r0['n'] == gname:
                    return st.glob.get(path[-1])
                key = (r0.get('d'), path)
                if key not in st.fld and r0.get('d') in locals_rec:
                    st.fld[key] = Lin(0, {'%s.%s#%d' % (r0['n'], '.'.join(path), st.ver): 1})
                return st.fld.get(key)
            return None
        if k == 'bin' and e['op'] in ('+', '-'):
            l, r = _ev(e['l'], st), _ev(e['r'], st)
            if l is None or r is None:
                return None
            return l.add(r, 1 if e['op'] == '+' else -1)
        if k == 'cond':
            l, r = _ev(e['t'], st), _ev(e['e'], st)
            if l is not None and r is not None and l.eq(r):
                return l
            # one value, whichever arm it comes from: copies of it stay equal to each other
            return Lin(0, {'(%s)@%d' % (expr_str(e)[:30], e.get('id', 0)): 1})
        if k == 'call' and callee_name(e) in u.functions and not e.get('args'):
            # an accessor of the global error (cJSON_GetErrorPtr): its value is its return expression as the globals stand now
            h = u.functions[callee_name(e)]
            hb = h.body.get('body', []) if h.body is not None and h.body.get('k') == 'compound' else []
            if len(hb) == 1 and hb[0].get('k') == 'return' and 'e' in hb[0]:
                return _ev(hb[0]['e'], st)
            return None
        return None

    def _mentioned(e):
        return {x.get('d') for x in walk(e) if x.get('k') == 'ref'}

    def _assign(lhs, rhs_val, st, rhs=None):
        l = strip_casts(lhs)
        if l.get('k') == 'un' and l['op'] == '*' and is_ref(l['e']) and strip_casts(l['e'])['d'] == rpe['d']:
            st.pub = ('set', rhs_val)
            return
        r0, path = _root(l)
        if r0.get('k') != 'ref':
            return
        if r0.get('dk') == 'global' and r0['n'] == gname:
            if path:
                st.glob[path[-1]] = rhs_val
            elif rhs is not None:
                # whole-record copy from a local error object
                s0, _p = _root(rhs)
                for f in ('json', 'position'):
                    st.glob[f] = st.fld.get((s0.get('d'), (f,))) if s0.get('k') == 'ref' else None
            return
        if path:
            st.fld[(r0.get('d'), path)] = rhs_val
        else:
            st.env[r0.get('d')] = rhs_val
        # conditions that mention the variable are no longer known
        st.truth = {k_: v for k_, v in st.truth.items() if r0.get('d') not in v[1]}

    def _exec(node, st):
        if node.kind == 'decl' and node.decl is not None:
            if 'init' in node.decl and u.ty(node.decl['ty'])['c'] not in ('record', 'array'):
                st.env[node.decl['d']] = _ev(node.decl['init'], st)
            return
        if node.expr is None:
            return
        for ev in node_effects(node):
            if ev.kind == 'store':
                a = ev.node
                if a['op'] == '=':
                    _assign(a['l'], _ev(a['r'], st), st, a['r'])
                elif a['op'] in ('+=', '-='):
                    o_, r_ = _ev(a['l'], st), _ev(a['r'], st)
                    _assign(a['l'], o_.add(r_, 1 if a['op'] == '+=' else -1) if o_ is not None and r_ is not None else None, st)
                else:
                    _assign(a['l'], None, st)
            elif ev.kind == 'incdec':
                _assign(ev.lhs, None, st)
            elif ev.kind == 'call':
                # a callee that receives the address of a local (the parse buffer) may change it: fresh symbols afterwards
                for a in ev.node.get('args', []):
                    a0 = strip_casts(a)
                    if a0.get('k') == 'un' and a0['op'] == '&':
                        r0, _p = _root(a0['e'])
                        if r0.get('k') == 'ref':
                            st.ver += 1
                            st.fld = {k_: v for k_, v in st.fld.items() if k_[0] != r0.get('d')}
                            st.env.pop(r0.get('d'), None)
                    elif a0.get('k') == 'ref' and a0.get('d') in locals_rec:
                        st.ver += 1
                        st.fld = {k_: v for k_, v in st.fld.items() if k_[0] != a0.get('d')}

    st0 = _S()
    st0.env, st0.fld, st0.glob, st0.pub, st0.truth, st0.ver = {}, {}, {}, None, {}, 0
    work = [(cfg.entry.id, st0)]
    fail_ids = {r.id for r in fail_rets}
    outcomes = {}
    steps = 0
    while work:
        nid, st = work.pop()
        steps += 1
        if steps > 200000:
            raise AnalysisBroken('C10P: the paths of %s do not finish' % fn.name)
        node = cfg.nodes[nid]
        if nid in fail_ids:
            if st.pub is not None:
                pv = st.pub[1]
                j, p_ = st.glob.get('json'), st.glob.get('position')
                same = pv is not None and j is not None and p_ is not None and pv.eq(j.add(p_))
                jv = j is not None and val is not None and j.eq(Lin(0, {val['n']: 1}))
                key = (repr(pv), repr(j), repr(p_))
                outcomes.setdefault(key, (same, jv, node))
            continue
        if node.kind == 'return':
            continue
        st = _copy(st)
        _exec(node, st)
        for (y, label) in cfg.succ[nid]:
            s2 = st
            if node.kind == 'branch' and label is not None and label[0] in ('T', 'F') and node.expr is not None:
                ck = expr_str(strip_casts(node.expr))
                tv = label[0] == 'T'
                known = st.truth.get(ck)
                if known is not None and known[0] != tv:
                    continue
                if not any(x.get('k') == 'call' for x in walk(node.expr)):
                    s2 = _copy(st)
                    s2.truth[ck] = (tv, _mentioned(node.expr))
            work.append((y, s2))
    if not outcomes:
        raise AnalysisBroken('C10P: no failing path of %s stores *return_parse_end' % fn.name)
    for key, (same, jv, node) in sorted(outcomes.items()):
        R.ob('C10P', fn, node.stmt, 'on failure the reported parse end equals %s.json + %s.position' % (gname, gname), same,
             'both are %s' % key[0] if same else 'parse end %s, %s.json %s, %s.position %s on some path to the return at line %d' % (
                 key[0], gname, key[1], gname, key[2], node.line), key='pub-equal:%s' % re.sub(r'#\d+', '', key[0] if same else '|'.join(key)))
        R.ob('C10P', fn, node.stmt, '%s.json is the caller\'s buffer' % gname, jv, '%s.json = %s' % (gname, key[1]), key='pub-json')
    # success: parse end is the buffer cursor
    for (n, ev) in ok_pubs:
        rhs = strip_casts(ev.node['r'])
        good = rhs.get('k') == 'bin' and rhs['op'] == '+' and is_mem(rhs['l'], 'content') and is_mem(rhs['r'], 'offset')
        R.ob('C10P', fn, ev.node, 'success parse end is content + offset of the parse buffer', good, expr_str(rhs), key='pub-ok')
    # termination check
    rnt = fn.param('require_null_terminated')
    if rnt is None:
        raise AnalysisBroken('C10: parameter require_null_terminated not found')
    tb = [n for n in cfg.nodes if n.kind == 'branch' and is_ref(n.expr) and strip_casts(n.expr)['d'] == rnt['d']]
    R.floor('C10T', 'tests of require_null_terminated', len(tb), 1)
    def cmp_is_terminator(e):
        """+1 / -1 when e is `<byte read> == 0` / `!= 0`, else 0"""
        p = cmp_parts(e)
        if p is None or p[2] != 0 or p[1] not in ('==', '!='):
            return 0
        acc = access(p[0]) if p[0].get('k') in ('idx', 'un') else None
        if acc is None:
            return 0
        return 1 if p[1] == '==' else -1
    # static predicates that answer "is the byte at the cursor the terminator" (possibly after skipping whitespace):
    # every true result is the comparison itself or lies behind its equal edge
    term_helpers = {}
    for h in u.function_list:
        if not h.static or h.name == fn.name:
            continue
        hcfg = h.cfg()
        hrets = [r for r in hcfg.returns() if r.expr is not None and const_val(r.expr) != 0]
        if not hrets:
            continue

        def hpassed(nn, l):
            return nn.kind == 'branch' and l is not None and cmp_is_terminator(nn.expr) != 0 and \
                (cmp_is_terminator(nn.expr) == 1) == (l[0] == 'T')
        good = True
        for r in hrets:
            if cmp_is_terminator(strip_casts(r.expr)) == 1:
                continue
            if const_val(r.expr) is not None and guarded_by(hcfg, r.id, hpassed):
                continue
            good = False
        if good:
            skips = any(callee_name(c) == 'buffer_skip_whitespace' for c in h.calls())
            term_helpers[h.name] = skips

    def helper_test(e):
        """(name, polarity) when e is H(..) or a comparison of H(..) with 0"""
        e = strip_casts(e)
        if e.get('k') == 'call' and callee_name(e) in term_helpers:
            return callee_name(e), True
        p = cmp_parts(e)
        if p is not None and p[2] == 0 and p[1] in ('==', '!=') and strip_casts(p[0]).get('k') == 'call' and \
                callee_name(strip_casts(p[0])) in term_helpers:
            return callee_name(strip_casts(p[0])), p[1] == '!='
        return None
    for n in tb:
        tsucc = [y for (y, l) in cfg.succ[n.id] if l and l[0] == 'T']

        def passed(nn, l):
            # edge on which "byte at the cursor is '\0'" holds
            if nn.kind != 'branch' or l is None:
                return False
            ht = helper_test(nn.expr)
            if ht is not None:
                return ht[1] == (l[0] == 'T')
            p = cmp_parts(nn.expr)
            if p is None or p[2] != 0 or p[1] not in ('==', '!='):
                return False
            acc = access(p[0]) if p[0].get('k') in ('idx', 'un') else None
            if acc is None:
                return False
            return (p[1] == '==') == (l[0] == 'T')
        # from the true edge, a successful return is reachable only through a "passed" edge
        seen = set(tsucc)
        work = list(tsucc)
        while work:
            x = work.pop()
            for (y, l) in cfg.succ[x]:
                if passed(cfg.nodes[x], l):
                    continue
                if y not in seen:
                    seen.add(y)
                    work.append(y)
        bad = [r for r in ok_rets if r.id in seen]
        R.ob('C10T', fn, n.expr, 'with require_null_terminated, success only after the byte at the cursor compares equal to 0',
             not bad, 'every path from the test to the successful return passes the comparison' if not bad else
             'successful return reachable without the terminator comparison', key='term-check')
        # whitespace is skipped before the comparison
        sk = [m.id for m in cfg.nodes if m.expr is not None and any(
            callee_name(c) == 'buffer_skip_whitespace' or term_helpers.get(callee_name(c)) for c in walk(m.expr) if c.get('k') == 'call')
            and any(m.id in cfg.reachable(t) | {t} for t in tsucc)]
        cmpn = [m for m in cfg.nodes if m.kind == 'branch' and (passed(m, ('T', m.expr)) or passed(m, ('F', m.expr)))]
        good = bool(sk) and all(any(cfg.dominates(s, m.id) for s in sk) for m in cmpn if any(m.id in cfg.reachable(t) | {t} for t in tsucc))
        R.ob('C10T', fn, n.expr, 'trailing whitespace is skipped before the terminator comparison', good, '', key='term-skip')


def _root_name(e):
    e = strip_casts(e)
    while e.get('k') in ('mem', 'idx'):
        e = strip_casts(e['b'])
    return e.get('n') if e.get('k') == 'ref' else None


def _always_advances(u, callee, pname, nonterm=None):
    """Every path through callee leaves *pname at least one byte after where it found it (rules/curdiff.py)."""
    from .curdiff import moves_forward
    return moves_forward(u, callee, pname, 1, nonterm)


def _returns_advanced(u, h, pi):
    """Every return of h hands back its pointer parameter number pi at least one byte further on: the parameter is only ever
    stepped forward (++, += positive constant), a positive step dominates every return, and what is returned is the parameter
    itself or the parameter plus a non-negative constant."""
    if h.body is None or pi >= len(h.params):
        return False
    pd = h.params[pi]['d']
    cfg = h.cfg()
    steps = set()
    for m in cfg.nodes:
        for ev in node_effects(m):
            if ev.kind in ('store', 'incdec') and is_ref(ev.lhs) and strip_casts(ev.lhs)['d'] == pd:
                if ev.kind == 'incdec' and ev.delta > 0:
                    steps.add(m.id)
                elif ev.kind == 'store' and ev.node['op'] == '+=' and (const_val(ev.node['r']) or 0) > 0:
                    steps.add(m.id)
                else:
                    return False
    for x in h.nodes():
        if x.get('k') == 'un' and x.get('op') == '&' and strip_casts(x['e']).get('k') == 'ref' and strip_casts(x['e'])['d'] == pd:
            return False
    rets = cfg.returns()
    if not rets or not steps:
        return False
    for r in rets:
        if r.expr is None:
            return False
        e = strip_casts(r.expr)
        k = 0
        if e.get('k') == 'bin' and e['op'] == '+' and const_val(e['r']) is not None:
            k = const_val(e['r'])
            e = strip_casts(e['l'])
        if not (e.get('k') == 'ref' and e['d'] == pd and k >= 0):
            return False
        if k == 0 and not guarded_by(cfg, r.id, lambda nn, l: nn.id in steps):
            # guarded_by works on edges: a step node lies on every path when the return is unreachable once step nodes are removed
            region = cfg.reachable(cfg.entry.id, stop=steps)
            if r.id in region:
                return False
    return True


def _span_of_current_byte(cfg, node, ev):
    r = strip_casts(ev.node['r'])
    if r.get('k') != 'call' or callee_name(r) != 'strspn' or len(r['args']) != 2:
        return False
    cur = expr_str(strip_casts(ev.lhs))
    if expr_str(strip_casts(r['args'][0])) != cur:
        return False
    lit = strip_casts(r['args'][1])
    if lit.get('k') != 'str':
        return False
    allowed = set(lit['bytes'])

    def reads_current(e):
        acc = access(strip_casts(e)) if strip_casts(e).get('k') in ('idx', 'un') else None
        return acc is not None and expr_str(strip_casts(acc[0])) == cur and acc[1] == 0
    sws = [sw for sw in cfg.nodes if sw.kind == 'switch' and reads_current(sw.expr)]
    for sw in sws:
        good = {(sw.id, l[2]) for (_y, l) in cfg.succ[sw.id] if l is not None and l[0] == 'case' and l[2] in allowed}
        if not good:
            continue
        if guarded_by(cfg, node.id, lambda nn, l, sw=sw: nn.id == sw.id and l is not None and l[0] == 'case' and l[2] in allowed):
            return True
    return False


# ---- BND6 loop progress -----------------------------------------------------------------------------------------------

def bnd6(units, R, functions=None, nonterm=None):
    """Every cycle of the CFG of a parse-family / minify function contains a strictly positive step of an input
    cursor or loop counter (removing those steps leaves the loop body acyclic)."""
    from .bnd import parse_family, Analyzer, _cursor_params, _parse_buffer_record
    u = units['cJSON.c']
    fns = functions if functions is not None else parse_family(u)
    nloops = 0
    for fn in fns:
        cfg = fn.cfg()
        g = {n.id: {y for (y, _l) in cfg.succ[n.id]} for n in cfg.nodes}
        loops = [c for c in _sccs(g, set(g)) if len(c) > 1 or c[0] in g.get(c[0], ())]
        if not loops:
            continue
        an = Analyzer(u, fn, {}, {})
        an.run()
        for comp in loops:
            nloops += 1
            comp = set(comp)
            progress = set()
            steps = []
            for nid in comp:
                n = cfg.nodes[nid]
                st = an.states.get(nid)
                for ev in node_effects(n):
                    if ev.kind == 'incdec' and ev.delta > 0:
                        progress.add(nid)
                        steps.append(expr_str(ev.node))
                    elif ev.kind == 'incdec' and ev.delta < 0 and is_ref(ev.lhs) and u.ty(strip_casts(ev.lhs)['ty'])['c'] == 'int':
                        # a descending counter is progress when the loop leaves on a lower bound of that counter
                        d = strip_casts(ev.lhs)['d']
                        for m in comp:
                            mn = cfg.nodes[m]
                            if mn.kind != 'branch':
                                continue
                            p = cmp_parts(mn.expr)
                            if (p and is_ref(p[0]) and strip_casts(p[0])['d'] == d and p[1] in ('>', '>=', '!=')) or \
                                    (is_ref(mn.expr) and strip_casts(mn.expr)['d'] == d):
                                if any(y not in comp for (y, _l) in cfg.succ[m]):
                                    progress.add(nid)
                                    steps.append(expr_str(ev.node))
                    elif ev.kind == 'store' and ev.node['op'] == '+=' and _span_of_current_byte(cfg, n, ev):
                        # p += strspn(p, set) reached only through `case` labels of a switch on *p that are all in the set:
                        # the byte under the cursor belongs to the span, so it is at least one byte long
                        progress.add(nid)
                        steps.append(expr_str(ev.node)[:40] + ' (>= 1)')
                    elif ev.kind == 'store' and ev.node['op'] == '+=':
                        c = const_val(ev.node['r'])
                        if c is not None and c > 0:
                            progress.add(nid)
                            steps.append(expr_str(ev.node))
                        elif c is None and st is not None:
                            iv = an.ieval(ev.node['r'], st)
                            if iv[0] >= 1:
                                progress.add(nid)
                                steps.append('%s (>= %d)' % (expr_str(ev.node), iv[0]))
                    elif ev.kind == 'call' and callee_name(ev.node) in u.functions:
                        # a callee that receives the address of the cursor and advances it on every path
                        callee = u.functions[callee_name(ev.node)]
                        for ai, a in enumerate(ev.node['args']):
                            a0 = strip_casts(a)
                            if a0.get('k') == 'un' and a0['op'] == '&' and ai < len(callee.params) and \
                                    _always_advances(u, callee, callee.params[ai]['n'], nonterm):
                                progress.add(nid)
                                steps.append('%s advances %s' % (callee.name, expr_str(a0['e'])))
                    elif ev.kind == 'store' and ev.node['op'] == '=' and is_ref(ev.lhs) and strip_casts(ev.node['r']).get('k') == 'call' and \
                            callee_name(strip_casts(ev.node['r'])) in u.functions:
                        # p = skip(p): a callee that hands its cursor argument back further on, on every path
                        call_ = strip_casts(ev.node['r'])
                        callee = u.functions[callee_name(call_)]
                        for ai, a_ in enumerate(call_['args']):
                            a0 = strip_casts(a_)
                            if a0.get('k') == 'ref' and a0['d'] == strip_casts(ev.lhs)['d'] and _returns_advanced(u, callee, ai):
                                progress.add(nid)
                                steps.append('%s hands %s back further on' % (callee.name, a0['n']))
                    elif ev.kind == 'store' and ev.node['op'] == '=' and is_ref(ev.lhs):
                        # list walk: x = x->next
                        r = strip_casts(ev.node['r'])
                        if r.get('k') == 'mem' and r['f'] == 'next' and is_ref(r['b']) and \
                                strip_casts(r['b'])['d'] == strip_casts(ev.lhs)['d']:
                            progress.add(nid)
                            steps.append(expr_str(ev.node))
            g2 = {n: {m for m in g[n] if m in comp and m not in progress} for n in comp if n not in progress}
            left = [c for c in _sccs(g2, set(g2)) if len(c) > 1 or c[0] in g2.get(c[0], ())]
            # a step-free cycle that continues only through `if (t)` although every assignment of t on it is the constant that
            # sends the branch the other way is no cycle (a flag set where the helper gave up: t = false; ... while (t))
            for _pass in range(4):
                if not left:
                    break
                pruned = False
                for scc in left:
                    sset = set(scc)
                    for bid in scc:
                        bn = cfg.nodes[bid]
                        if bn.kind != 'branch' or bn.expr is None:
                            continue
                        e = strip_casts(bn.expr)
                        want_nonzero = True
                        pc = cmp_parts(e)
                        if pc is not None and pc[2] == 0 and pc[1] in ('==', '!='):
                            want_nonzero = pc[1] == '!='
                            e = strip_casts(pc[0])
                        if e.get('k') != 'ref' or e.get('dk') != 'local':
                            continue
                        defs = {}
                        for m in scc:
                            for ev in node_effects(cfg.nodes[m]):
                                if ev.kind in ('store', 'incdec') and is_ref(ev.lhs) and strip_casts(ev.lhs)['d'] == e['d']:
                                    defs[m] = const_val(ev.node['r']) if (ev.kind == 'store' and ev.node['op'] == '=') else None
                        if not defs or any(v is None for v in defs.values()):
                            continue
                        for (y, l) in cfg.succ[bid]:
                            if y not in sset or y not in g2.get(bid, ()) or l is None or l[0] not in ('T', 'F'):
                                continue
                            needs_nonzero = (l[0] == 'T') == want_nonzero
                            if any((v != 0) == needs_nonzero for v in defs.values()):
                                continue
                            # every cycle through this edge passes one of the definitions?
                            g3 = {n: {m for m in g2[n] if m in sset and m not in defs} for n in sset if n not in defs}
                            seen = set()
                            work = [y] if y in g3 else []
                            back = False
                            while work:
                                x = work.pop()
                                if x == bid:
                                    back = True
                                    break
                                if x in seen:
                                    continue
                                seen.add(x)
                                work.extend(g3.get(x, ()))
                            if not back:
                                g2[bid] = g2[bid] - {y}
                                pruned = True
                if not pruned:
                    break
                left = [c for c in _sccs(g2, set(g2)) if len(c) > 1 or c[0] in g2.get(c[0], ())]
            # a step-free cycle that no value of a flag can go round: followed with the flag's value (true / false / unknown) every
            # test of the flag takes the edge that value allows, and an assignment of a constant sets it.  `while (t && ..) { ..
            # default: t = false; break; .. if (t) { i++; } }` has no step-free cycle in that product.
            if left:
                kept = []
                for scc in left:
                    sset = set(scc)
                    flags_ = set()
                    for bid in scc:
                        bn = cfg.nodes[bid]
                        if bn.kind == 'branch' and bn.expr is not None:
                            e_ = strip_casts(bn.expr)
                            while e_.get('k') == 'un' and e_['op'] == '!':
                                e_ = strip_casts(e_['e'])
                            if e_.get('k') == 'ref' and e_.get('dk') == 'local':
                                flags_.add(e_['d'])
                    real = True
                    for fd in flags_:
                        def step(nid, val):
                            nd_ = cfg.nodes[nid]
                            v2 = val
                            for ev in node_effects(nd_):
                                if ev.kind in ('store', 'incdec') and is_ref(ev.lhs) and strip_casts(ev.lhs)['d'] == fd:
                                    cv = const_val(ev.node['r']) if (ev.kind == 'store' and ev.node['op'] == '=') else None
                                    v2 = None if cv is None else bool(cv)
                            out_ = []
                            for y in g2.get(nid, ()):
                                if y not in sset:
                                    continue
                                if nd_.kind == 'branch' and nd_.expr is not None:
                                    e_ = strip_casts(nd_.expr)
                                    neg = False
                                    while e_.get('k') == 'un' and e_['op'] == '!':
                                        e_ = strip_casts(e_['e'])
                                        neg = not neg
                                    if e_.get('k') == 'ref' and e_.get('d') == fd and v2 is not None:
                                        labs = [l for (yy, l) in cfg.succ[nid] if yy == y and l is not None and l[0] in ('T', 'F')]
                                        if labs and all((l[0] == 'T') != (v2 != neg) for l in labs):
                                            continue
                                        out_.append((y, v2))
                                        continue
                                    if e_.get('k') == 'ref' and e_.get('d') == fd and v2 is None:
                                        labs = [l for (yy, l) in cfg.succ[nid] if yy == y and l is not None and l[0] in ('T', 'F')]
                                        if labs:
                                            out_.append((y, (labs[0][0] == 'T') != neg))
                                            continue
                                out_.append((y, v2))
                            return out_
                        # is there a cycle in the product graph?
                        nodes_ = [(nid, v) for nid in scc for v in (True, False, None)]
                        adj = {st_: step(*st_) for st_ in nodes_}
                        color = {}
                        cyc = False
                        for st0 in nodes_:
                            if st0 in color:
                                continue
                            stack = [(st0, iter(adj.get(st0, ())))]
                            color[st0] = 1
                            while stack and not cyc:
                                cur, it = stack[-1]
                                nxt = next(it, None)
                                if nxt is None:
                                    color[cur] = 2
                                    stack.pop()
                                    continue
                                if color.get(nxt) == 1:
                                    cyc = True
                                elif nxt not in color:
                                    color[nxt] = 1
                                    stack.append((nxt, iter(adj.get(nxt, ()))))
                            if cyc:
                                break
                        if not cyc:
                            real = False
                            break
                    if real:
                        kept.append(scc)
                left = kept
            # what is left after the forward steps: an inner loop that walks a pointer or counter backwards down to a bound that
            # stands still in that loop (while ((p > start) && (p[-1] == c)) p--;) ends as well
            for _pass in range(4):
                if not left:
                    break
                down = set()
                for scc in left:
                    sset = set(scc)
                    effects = [(m, e2) for m in scc for e2 in node_effects(cfg.nodes[m])]
                    assigned = {}
                    for (m, e2) in effects:
                        if e2.kind in ('store', 'incdec') and is_ref(e2.lhs):
                            assigned.setdefault(strip_casts(e2.lhs)['d'], []).append((m, e2))
                    addr = {strip_casts(x['e']).get('d') for m in scc for r_ in [cfg.nodes[m].expr] if r_ is not None for x in walk(r_)
                            if x.get('k') == 'un' and x['op'] == '&' and strip_casts(x['e']).get('k') == 'ref'}
                    for d, defs_ in assigned.items():
                        if d in addr or not all(e2.kind == 'incdec' and e2.delta < 0 for (_m, e2) in defs_):
                            continue
                        for m in scc:
                            mn = cfg.nodes[m]
                            if mn.kind != 'branch' or mn.expr is None:
                                continue
                            e2 = strip_casts(mn.expr)
                            if e2.get('k') != 'bin' or e2['op'] not in ('<', '<=', '>', '>=', '!='):
                                continue
                            lo_, hi_ = (e2['r'], e2['l']) if e2['op'] in ('>', '>=', '!=') else (e2['l'], e2['r'])
                            if not (is_ref(hi_) and strip_casts(hi_)['d'] == d):
                                continue
                            bound = {x.get('d') for x in walk(lo_) if x.get('k') == 'ref'}
                            if bound & (set(assigned) | addr) or \
                                    any(x.get('k') in ('call', 'mem', 'idx') or (x.get('k') == 'un' and x['op'] == '*') for x in walk(lo_)):
                                continue
                            # the loop is left where the bound is reached
                            stay = 'T' if e2['op'] in ('>', '>=', '!=') else ('T' if strip_casts(e2['l']) is strip_casts(lo_) else None)
                            if any(y not in sset and l is not None and l[0] == 'F' for (y, l) in cfg.succ[m]) and stay == 'T':
                                for (m2, e3) in defs_:
                                    down.add(m2)
                                    steps.append('%s (down to %s)' % (expr_str(e3.node), expr_str(lo_)[:30]))
                if not down:
                    break
                progress |= down
                g2 = {n: {m for m in g2[n] if m not in down} for n in g2 if n not in down}
                left = [c for c in _sccs(g2, set(g2)) if len(c) > 1 or c[0] in g2.get(c[0], ())]
            head = min(cfg.nodes[n].line for n in comp)
            if left:
                # a position kept as a number and handed to a function of the unit by address: whether that function moves it
                # forward is followed for cursors that are pointers (char **), not for numbers
                for m_ in left[0]:
                    root_ = cfg.nodes[m_].expr
                    if root_ is None:
                        continue
                    for c_ in walk(root_):
                        if c_.get('k') == 'call' and callee_name(c_) in u.functions:
                            for a_ in c_['args']:
                                a0_ = strip_casts(a_)
                                if a0_.get('k') == 'un' and a0_['op'] == '&' and strip_casts(a0_['e']).get('k') == 'ref' and \
                                        u.ty(strip_casts(a0_['e']).get('ty0', strip_casts(a0_['e'])['ty']))['c'] == 'int':
                                    raise AnalysisBroken('BND6: %s: the loop at line %d hands the position %s to %s by address; whether '
                                                         'the callee moves a position kept as a number forward is not followed'
                                                         % (fn.where(c_), head, strip_casts(a0_['e'])['n'], callee_name(c_)))
            R.ob('BND6', fn, None, 'loop at line %d advances a cursor on every iteration' % head, not left,
                 'steps: %s' % sorted(set(steps))[:4] if not left else
                 'a cycle through lines %s has no forward step' % sorted({cfg.nodes[n].line for n in left[0]})[:6],
                 key='loop:' + ';'.join(sorted(set(steps)))[:80], line=head)
    if functions is None:
        R.floor('BND6', 'loops in the parse family', nloops, 7)


# ---- TAB7 saturation template ---------------------------------------------------------------------------------------

INT_MAX = 2147483647
INT_MIN = -2147483648


class _Undecided(Exception):
    pass


def _t7_float(u, e, x, env):
    """value of a double expression when the converted variable holds x (None = not an expression over it)"""
    e0 = strip_casts(e)
    v = const_val(e0)
    if v is None:
        v = const_val(e)
    if v is not None:
        return float(v)
    k = e0.get('k')
    if k == 'float':
        return float(e0['fval'])
    if k == 'ref':
        if e0['d'] in env:
            return env[e0['d']]
        raise _Undecided(expr_str(e0))
    if k == 'un' and e0['op'] == '-':
        return -_t7_float(u, e0['e'], x, env)
    if k == 'call' and callee_name(e0) in ('fabs', '__builtin_fabs') and len(e0['args']) == 1:
        v = _t7_float(u, e0['args'][0], x, env)
        return abs(v)
    raise _Undecided(expr_str(e0))


def _t7_cond(u, e, x, env):
    """truth of a condition over the converted variable, None when it does not involve it (taken both ways)"""
    e0 = strip_casts(e)
    k = e0.get('k')
    if k == 'un' and e0['op'] == '!':
        t = _t7_cond(u, e0['e'], x, env)
        return None if t is None else (not t)
    if k == 'bin' and e0['op'] in ('&&', '||'):
        l, r = _t7_cond(u, e0['l'], x, env), _t7_cond(u, e0['r'], x, env)
        if e0['op'] == '&&':
            if l is False or r is False:
                return False
            return True if (l is True and r is True) else None
        if l is True or r is True:
            return True
        return False if (l is False and r is False) else None
    mentions = any(y.get('k') == 'ref' and y.get('d') in env for y in walk(e0))
    if not mentions:
        return None
    if k == 'bin' and e0['op'] in ('<', '<=', '>', '>=', '==', '!='):
        l, r = _t7_float(u, e0['l'], x, env), _t7_float(u, e0['r'], x, env)
        return {'<': l < r, '<=': l <= r, '>': l > r, '>=': l >= r, '==': l == r, '!=': l != r}[e0['op']]
    if k == 'call' and callee_name(e0) in ('isnan', '__builtin_isnan', '__isnan') and e0.get('args'):
        v = _t7_float(u, e0['args'][0], x, env)
        return v != v
    if k == 'call' and callee_name(e0) in ('isinf', '__builtin_isinf', '__isinf', '__builtin_isinf_sign') and e0.get('args'):
        v = _t7_float(u, e0['args'][0], x, env)
        return v in (float('inf'), float('-inf'))
    raise _Undecided(expr_str(e0))


def _t7_int(u, e, x, env, ienv, depth=0):
    """abstract value of an int expression: ('k', c) | ('cast',) | None (nothing to do with the converted variable)"""
    r0 = e
    while r0.get('k') == 'cast' and not (u.ty(r0['from'])['c'] == 'float' and u.ty(r0['ty'])['c'] == 'int'):
        r0 = r0['e']
    if r0.get('k') == 'cast':
        inner = strip_casts(r0['e'])
        if inner.get('k') == 'ref' and inner['d'] in env:
            return ('cast',)
        raise _Undecided('(int)%s' % expr_str(inner))
    e0 = strip_casts(e)
    v = const_val(e)
    if v is None:
        v = const_val(e0)
    if v is not None:
        return ('k', int(v))
    if e0.get('k') == 'cond':
        t = _t7_cond(u, e0['c'], x, env)
        if t is None:
            a_, b_ = _t7_int(u, e0['t'], x, env, ienv, depth), _t7_int(u, e0['e'], x, env, ienv, depth)
            if a_ == b_:
                return a_
            raise _Undecided(expr_str(e0))
        return _t7_int(u, e0['t'] if t else e0['e'], x, env, ienv, depth)
    if e0.get('k') == 'ref' and e0['d'] in ienv:
        return ienv[e0['d']]
    if e0.get('k') == 'call' and callee_name(e0) in u.functions and depth < 3:
        g = u.functions[callee_name(e0)]
        fl = [i for i, p_ in enumerate(g.params) if u.ty(p_['ty'])['c'] == 'float']
        if g.body is not None and len(fl) == 1 and fl[0] < len(e0['args']):
            arg = strip_casts(e0['args'][fl[0]])
            if arg.get('k') == 'ref' and arg['d'] in env:
                vals = set()
                for (_n, val) in _t7_paths(u, g, x, {g.params[fl[0]]['d']: x}, depth + 1, want='return'):
                    vals.add(val)
                if len(vals) == 1:
                    return vals.pop()
                raise _Undecided('%s returns %s' % (g.name, sorted(map(str, vals))))
    return None


def _t7_paths(u, fn, x, env, depth=0, want='store'):
    """(node, abstract value) of every store into ->valueint (want='store') or every return (want='return') that can be reached
    when the converted variable holds x; conditions that do not involve it are taken both ways"""
    cfg = fn.cfg()
    out = []
    seen = set()
    work = [(cfg.entry.id, ())]
    while work:
        nid, ie = work.pop()
        if (nid, ie) in seen:
            continue
        seen.add((nid, ie))
        if len(seen) > 20000:
            raise _Undecided('too many paths in %s' % fn.name)
        node = cfg.nodes[nid]
        ienv = dict(ie)
        exprs = []
        if node.kind == 'decl' and node.decl is not None and 'init' in node.decl:
            if u.ty(node.decl['ty'])['c'] == 'int':
                try:
                    ienv[node.decl['d']] = _t7_int(u, node.decl['init'], x, env, ienv, depth)
                except _Undecided:
                    ienv[node.decl['d']] = None
        elif node.kind == 'stmt' and node.expr is not None:
            for y in walk(node.expr):
                if y.get('k') == 'bin' and y.get('op') == '=':
                    l = strip_casts(y['l'])
                    if l.get('k') == 'mem' and l['f'] == 'valueint' and want == 'store':
                        r_ = strip_casts(y['r'])
                        if r_.get('k') == 'mem' and r_['f'] == 'valueint':
                            continue
                        out.append((y, _t7_int(u, y['r'], x, env, ienv, depth)))
                    elif l.get('k') == 'ref' and u.ty(l.get('ty0', l['ty']))['c'] == 'int':
                        try:
                            ienv[l['d']] = _t7_int(u, y['r'], x, env, ienv, depth)
                        except _Undecided:
                            ienv[l['d']] = None
                    elif l.get('k') == 'ref' and l['d'] in env:
                        pass        # the converted variable is (re)defined: it holds x by assumption
        elif node.kind == 'return':
            if want == 'return' and node.expr is not None:
                out.append((node.expr, _t7_int(u, node.expr, x, env, ienv, depth)))
            continue
        ie2 = tuple(sorted((k_, v_) for k_, v_ in ienv.items() if v_ is not None))
        for (y, l) in cfg.succ[nid]:
            if node.kind == 'branch' and l is not None and l[0] in ('T', 'F'):
                t = _t7_cond(u, l[1], x, env)
                if t is not None and t != (l[0] == 'T'):
                    continue
            work.append((y, ie2))
    return out


def tab7(units, R):
    """The int view of a number is the double truncated towards zero and saturated at INT_MIN / INT_MAX, and the conversion itself is
    only reached where it is defined.  For every function that stores (int)x - directly, through an int local, a conditional
    expression or a static helper of one double parameter - into ->valueint, the function is followed once for each region into
    which the constants it compares x with (and INT_MIN - 1, INT_MIN, INT_MIN + 1, INT_MAX - 1, INT_MAX, INT_MAX + 1, their
    negatives, 0) cut the doubles, plus NaN and the infinities; conditions over x are decided for the region, all others are taken
    both ways.  Every store that can be reached is either the conversion, with x strictly between INT_MIN - 1 and INT_MAX + 1, or a
    constant equal to the truncated and saturated value of the region.  NaN is not judged: the parser cannot produce it and the
    properties speak of numbers (today's tree converts it, which C leaves undefined; recorded in DESIGN.md, not claimed)."""
    u = units['cJSON.c']
    n = 0
    NAN, INF = float('nan'), float('inf')
    for fn in u.function_list:
        if fn.body is None:
            continue
        stores = [a for a in assignments(fn) if strip_casts(a['l']).get('k') == 'mem' and strip_casts(a['l'])['f'] == 'valueint' and a['op'] == '=']
        if not stores:
            continue
        # the converted variable: a double local/parameter that is cast to int here, or handed to a helper that returns int
        xs = {}
        for a in stores:
            for y in walk(a['r']):
                if y.get('k') == 'cast' and u.ty(y['from'])['c'] == 'float' and u.ty(y['ty'])['c'] == 'int' and strip_casts(y['e']).get('k') == 'ref':
                    xs[strip_casts(y['e'])['d']] = strip_casts(y['e'])['n']
                if y.get('k') == 'call' and callee_name(y) in u.functions and u.ty(y.get('ty0', y['ty']))['c'] == 'int':
                    for a2 in y['args']:
                        a2 = strip_casts(a2)
                        if a2.get('k') == 'ref' and u.ty(a2.get('ty0', a2['ty']))['c'] == 'float':
                            xs[a2['d']] = a2['n']
        ivars = {strip_casts(a['r'])['d'] for a in stores if strip_casts(a['r']).get('k') == 'ref'}
        for a2 in assignments(fn):
            if is_ref(a2['l']) and strip_casts(a2['l'])['d'] in ivars:
                for y in walk(a2['r']):
                    if y.get('k') == 'cast' and u.ty(y['from'])['c'] == 'float' and u.ty(y['ty'])['c'] == 'int' and strip_casts(y['e']).get('k') == 'ref':
                        xs[strip_casts(y['e'])['d']] = strip_casts(y['e'])['n']
        if not xs:
            nonconst = [a for a in stores if const_val(a['r']) is None and not (strip_casts(a['r']).get('k') == 'mem' and strip_casts(a['r'])['f'] == 'valueint')]
            for a in nonconst:
                n += 1
                R.ob('TAB7', fn, a, 'int view %s is the saturating conversion of the number' % expr_str(a)[:50], False,
                     'valueint assigned from %s, which is neither a constant nor a conversion of the double' % expr_str(strip_casts(a['r']))[:40],
                     key='valueint:' + expr_str(strip_casts(a['r']))[:40])
            continue
        if len(xs) != 1:
            raise AnalysisBroken('TAB7: %s converts %d different doubles into valueint' % (fn.name, len(xs)))
        xd, xn = next(iter(xs.items()))
        # break points
        pts = {0.0}
        for base in (INT_MIN, INT_MAX):
            pts |= {float(base - 1), float(base), float(base + 1)}
        scope_fns = [fn] + [u.functions[callee_name(c)] for c in fn.calls() if callee_name(c) in u.functions and
                            any(u.ty(p_['ty'])['c'] == 'float' for p_ in u.functions[callee_name(c)].params)]
        for g in scope_fns:
            for y in g.nodes():
                if y.get('k') == 'bin' and y.get('op') in ('<', '<=', '>', '>=', '==', '!='):
                    for side in (y['l'], y['r']):
                        v = const_val(side)
                        if v is None:
                            v = const_val(strip_casts(side))
                        if v is None and strip_casts(side).get('k') == 'float':
                            v = float(strip_casts(side)['fval'])
                        if v is not None and abs(float(v)) < 1e300:
                            pts.add(float(v))
        pts |= {-p_ for p_ in pts}
        order = sorted(pts)
        samples = [(NAN, 'NaN'), (-INF, '-infinity'), (INF, '+infinity'), (order[0] - 1e6, 'below %g' % order[0]), (order[-1] + 1e6, 'above %g' % order[-1])]
        for i, p_ in enumerate(order):
            samples.append((p_, '%.17g' % p_))
            if i + 1 < len(order):
                samples.append(((p_ + order[i + 1]) / 2.0, 'between %.17g and %.17g' % (p_, order[i + 1])))
        worst = None
        nstores = 0
        try:
            for (x, label) in samples:
                for (node, val) in _t7_paths(u, fn, x, {xd: x}):
                    nstores += 1
                    if val is None:
                        continue
                    if val == ('cast',):
                        if x != x:
                            continue        # NaN is not a number any property speaks of (the parser cannot produce it); not judged
                        if not ((INT_MIN - 1) < x < (INT_MAX + 1)):
                            worst = worst or (node, '(int)%s is reached for %s = %s, where the conversion is undefined' % (xn, xn, label))
                    elif x == x:
                        want = INT_MAX if x >= INT_MAX else (INT_MIN if x <= INT_MIN else int(x))
                        if val[1] != want:
                            worst = worst or (node, 'for %s = %s the int view becomes %d; truncated and saturated it is %d' % (xn, label, val[1], want))
        except _Undecided as ex_:
            raise AnalysisBroken('TAB7: %s: %s cannot be decided for a given value of %s' % (fn.name, ex_, xn))
        n += 1
        R.ob('TAB7', fn, worst[0] if worst else stores[0], 'the int view of %s is its value truncated towards zero and saturated' % xn, worst is None,
             '%d regions of the doubles, %d reachable stores' % (len(samples), nstores) if worst is None else worst[1], key='valueint:' + xn)
    R.floor('TAB7', 'double-to-int conversions into valueint', n, 3)


# ---- TAB4 literal triples --------------------------------------------------------------------------------------------

LITERALS = {'null': 4, 'false': 1, 'true': 2}   # literal -> kind bit


def tab4(units, R):
    u = units['cJSON.c']
    fn = u.fn('parse_value')
    cfg = fn.cfg()
    found = {}
    # helpers that consume a literal handed to them: compare <length parameter> bytes at the cursor with <text parameter>
    # and, behind the equal edge only, return non-zero having advanced the offset by the same parameter
    consumers = {}

    def lin_of(h, e, pidx, depth=0):
        """e as {param index: coefficient, 'c': constant} over the helper's parameters; locals with one definition are followed"""
        v = const_val(e)
        if v is not None:
            return {'c': v}
        e = strip_casts(e)
        k = e.get('k')
        if k == 'ref' and e.get('d') in pidx:
            return {pidx[e['d']]: 1, 'c': 0}
        if k == 'ref' and e.get('dk') == 'local' and depth < 4:
            defs = [d['init'] for d in h.locals() if d['d'] == e['d'] and 'init' in d]
            defs += [a['r'] for a in assignments(h) if strip_casts(a['l']).get('k') == 'ref' and strip_casts(a['l'])['d'] == e['d']]
            if len(defs) == 1 and not any(a['op'] != '=' for a in assignments(h) if strip_casts(a['l']).get('d') == e['d']):
                return lin_of(h, defs[0], pidx, depth + 1)
            return None
        if k == 'bin' and e['op'] in ('+', '-'):
            l, r = lin_of(h, e['l'], pidx, depth), lin_of(h, e['r'], pidx, depth)
            if l is None or r is None:
                return None
            out = dict(l)
            for kk, vv in r.items():
                out[kk] = out.get(kk, 0) + (vv if e['op'] == '+' else -vv)
            return out
        return None

    def lin_at(l, call):
        if l is None:
            return None
        tot = l.get('c', 0)
        for kk, co in l.items():
            if kk == 'c' or co == 0:
                continue
            if kk >= len(call['args']):
                return None
            v = const_val(call['args'][kk])
            if v is None:
                return None
            tot += co * v
        return tot

    _sdefs = {}
    for d_ in fn.locals():
        _sdefs.setdefault(d_['d'], [])
        if 'init' in d_:
            _sdefs[d_['d']].append(d_['init'])
    for a_ in assignments(fn):
        if is_ref(a_['l']):
            _sdefs.setdefault(strip_casts(a_['l'])['d'], []).append(a_['r'] if a_['op'] == '=' else None)

    def cval(e, depth=0):
        """constant value of e, through locals with a single constant definition (const size_t n = sizeof("null") - sizeof(""))"""
        v = const_val(e)
        if v is not None or depth > 3:
            return v
        e0 = strip_casts(e)
        if e0.get('k') == 'ref' and e0.get('dk') == 'local':
            ds = _sdefs.get(e0['d'], [])
            if len(ds) == 1 and ds[0] is not None:
                return cval(ds[0], depth + 1)
        if e0.get('k') == 'bin' and e0['op'] in ('+', '-'):
            l, r = cval(e0['l'], depth + 1), cval(e0['r'], depth + 1)
            if l is not None and r is not None:
                return l + r if e0['op'] == '+' else l - r
        return None

    def required_before(xcfg, node_id):
        """S of the nearest `X->offset + S <= X->length` (can_read) whose true edge every path to the node takes"""
        def size_of(nn):
            if nn.kind != 'branch':
                return None
            c = strip_casts(nn.expr)
            if c.get('k') == 'bin' and c['op'] in ('<=', '<') and is_mem(c['r'], 'length'):
                a = strip_casts(c['l'])
                if a.get('k') == 'bin' and a['op'] == '+':
                    for (x, y) in ((a['l'], a['r']), (a['r'], a['l'])):
                        if is_mem(x, 'offset'):
                            if c['op'] == '<':
                                # offset + S < length (can_access_at_index) demands S + 1 bytes
                                v = const_val(y)
                                return {'k': 'int', 'val': v + 1, 'ty': strip_casts(y).get('ty'), 'id': -1} if v is not None else None
                            return y
            return None
        cands = [nn for nn in xcfg.nodes if size_of(nn) is not None]

        def guards(g, target):
            return guarded_by(xcfg, target, lambda nn, l, g=g: nn.id == g.id and l is not None and l[0] == 'T')
        gs = [g for g in cands if g.id != node_id and guards(g, node_id)]
        for g in gs:
            if all(o is g or guards(o, g.id) for o in gs):
                return size_of(g)
        return None
    for h in u.function_list:
        if not h.static or h.name == fn.name:
            continue
        pidx = {pp['d']: i for i, pp in enumerate(h.params)}
        hcfg = h.cfg()
        for b in hcfg.nodes:
            if b.kind != 'branch':
                continue
            p = cmp_parts(b.expr)
            if p is None or p[2] != 0 or p[1] not in ('==', '!=') or p[0].get('k') != 'call' or callee_name(p[0]) not in ('strncmp', 'memcmp'):
                continue
            args = [strip_casts(a) for a in p[0]['args']]
            if len(args) != 3:
                continue
            cmp_len = lin_of(h, p[0]['args'][2], pidx)
            if cmp_len is None or not any(kk != 'c' and co for kk, co in cmp_len.items()):
                continue
            tp = [a for a in args[:2] if a.get('k') == 'ref' and a.get('d') in pidx]
            if not tp:
                continue
            eq_pol = 'T' if p[1] == '==' else 'F'
            rets = [r for r in hcfg.returns() if r.expr is not None and const_val(r.expr) != 0]
            good = bool(rets) and all(guarded_by(hcfg, r.id, lambda nn, l, b=b, eq_pol=eq_pol: nn.id == b.id and l is not None and l[0] == eq_pol)
                                      for r in rets)
            adv_nodes = {}
            for m in hcfg.nodes:
                if m.kind == 'stmt' and strip_casts(m.expr).get('k') == 'bin' and strip_casts(m.expr)['op'] == '+=' and \
                        is_mem(strip_casts(m.expr)['l'], 'offset'):
                    adv_nodes[m.id] = lin_of(h, strip_casts(m.expr)['r'], pidx)
            advanced = bool(adv_nodes) and all(r.id not in (hcfg.reachable(hcfg.entry.id, stop=set(adv_nodes)) | {hcfg.entry.id}) for r in rets)
            advs = list(adv_nodes.values())
            if good and advanced and len(advs) == 1 and advs[0] is not None:
                rq = required_before(hcfg, b.id)
                consumers[h.name] = {'text': pidx[tp[0]['d']], 'cmp': cmp_len, 'adv': advs[0],
                                     'req': lin_of(h, rq, pidx) if rq is not None else None, 'has_req': rq is not None}
    for b in cfg.nodes:
        if b.kind != 'branch':
            continue
        e0 = strip_casts(b.expr)
        pol = 'T'
        hc = None
        if e0.get('k') == 'call' and callee_name(e0) in consumers:
            hc = e0
        else:
            pz = cmp_parts(e0)
            if pz is not None and pz[2] == 0 and pz[1] in ('==', '!=') and strip_casts(pz[0]).get('k') == 'call' and \
                    callee_name(strip_casts(pz[0])) in consumers:
                hc = strip_casts(pz[0])
                pol = 'T' if pz[1] == '!=' else 'F'
        if hc is not None:
            cs = consumers[callee_name(hc)]
            ti = cs['text']
            lit = strip_casts(hc['args'][ti]) if ti < len(hc['args']) else {}
            nn = lin_at(cs['cmp'], hc)
            if lit.get('k') != 'str' or nn is None:
                continue
            text = bytes(lit['bytes']).decode('latin1')
            reg = set()
            for (y, l) in cfg.succ[b.id]:
                if l and l[0] == pol:
                    reg |= cfg.reachable(y) | {y}
            kind = None
            for m in sorted(reg):
                mn = cfg.nodes[m]
                if mn.kind == 'stmt' and mn.expr.get('k') == 'bin' and mn.expr['op'] == '=' and is_mem(mn.expr['l'], 'type') and kind is None:
                    kind = const_val(mn.expr['r'])
            found[text] = (nn, lin_at(cs['adv'], hc), kind, b, lin_at(cs['req'], hc) if cs['has_req'] else 'none')
            continue
        p = cmp_parts(b.expr)
        if p is None or p[1] not in ('==', '!=') or p[2] != 0 or p[0].get('k') != 'call' or callee_name(p[0]) not in ('strncmp', 'memcmp'):
            continue
        call = p[0]
        lits = [strip_casts(a) for a in call['args'] if strip_casts(a).get('k') == 'str']
        nn = cval(call['args'][2])
        if not lits or nn is None:
            continue
        text = bytes(lits[0]['bytes']).decode('latin1')
        # the edge on which the bytes compared equal (strncmp(..) == 0 taken, or strncmp(..) != 0 not taken)
        t = [y for (y, l) in cfg.succ[b.id] if l and l[0] == ('T' if p[1] == '==' else 'F')]
        reg = set()
        for y in t:
            reg |= cfg.reachable(y) | {y}
        adv = None
        kind = None
        for m in sorted(reg):
            mn = cfg.nodes[m]
            if mn.kind == 'stmt' and mn.expr.get('k') == 'bin':
                if mn.expr['op'] == '+=' and is_mem(mn.expr['l'], 'offset') and adv is None:
                    adv = cval(mn.expr['r'])
                if mn.expr['op'] == '=' and is_mem(mn.expr['l'], 'type') and kind is None:
                    kind = cval(mn.expr['r'])
        rq = required_before(cfg, b.id)
        found[text] = (nn, adv, kind, b, cval(rq) if rq is not None else 'none')
    bnd_states, bnd_key = {}, None
    try:
        from . import bnd as _bnd
        rec_ = _bnd._parse_buffer_record(u)
        cps_ = [c_ for c_ in _bnd._cursor_params(u, fn, rec_) if c_[2] == 'buf']
        if len(cps_) == 1:
            an_ = _bnd.Analyzer(u, fn, {cps_[0][1]: 0}, {})
            an_.run()
            bnd_states, bnd_key = an_.states, cps_[0][1]
    except AnalysisBroken:
        bnd_states = {}
    if not found:
        # no comparison with a string literal at all, but comparisons whose text comes out of a table: the literals are data
        tabled = [c_ for c_ in fn.calls() if callee_name(c_) in ('strncmp', 'memcmp') and len(c_['args']) == 3 and
                  not any(strip_casts(a_).get('k') == 'str' for a_ in c_['args'])]
        if tabled:
            raise AnalysisBroken('TAB4: %s: parse_value compares the input with text taken from %s; literals kept as data are not '
                                 'evaluated by this rule' % (fn.where(tabled[0]), expr_str(strip_casts(tabled[0]['args'][1]))[:30]))
    for text, bit in LITERALS.items():
        if text not in found:
            R.ob('TAB4', fn, None, 'literal %s is recognised' % text, False, 'no comparison with "%s"' % text, key='lit:' + text)
            continue
        nn, adv, kind, b, req = found[text]
        if req == 'none' and b.id in bnd_states:
            # the guard is not spelled offset + S <= length: take what the bounds analysis knows at the comparison - on entry
            # nothing is assumed readable, so the lower bound there is what the tests in front of the comparison demanded
            lo_ = bnd_states[b.id].buf.get(bnd_key, (None, None))[0]
            if lo_ is not None and lo_ >= 1:
                req = lo_
        ok = nn == len(text) and adv == len(text) and kind == bit
        R.ob('TAB4', fn, b.expr, 'literal "%s": compared length %s, advance %s, kind %s' % (text, nn, adv, kind), ok,
             'all equal to strlen = %d and kind bit %d' % (len(text), bit) if ok else
             'expected compare length = advance = %d and kind %d' % (len(text), bit), key='lit:' + text)
        if req != 'none':
            # the bytes demanded before comparing: fewer is BND1's business, more refuses the literal at the very end of the input
            okr = req is not None and req <= len(text)
            R.ob('TAB4', fn, b.expr, 'literal "%s" needs no more readable bytes than it has' % text, okr,
                 '%s byte(s) required for %d' % (req, len(text)) if okr else
                 '%s readable byte(s) are demanded for the %d of the literal: it is refused as the last token of an exact-length buffer' % (req, len(text)),
                 key='lit-need:' + text)
    extra = set(found) - set(LITERALS)
    R.ob('TAB4', fn, None, 'no literal outside null/false/true is accepted', not extra, str(sorted(extra)), key='lit-extra')
    # BOM
    fb = u.fn('skip_utf8_bom')
    cfgb = fb.cfg()
    okb = False
    for b in cfgb.nodes:
        if b.kind != 'branch':
            continue
        p = cmp_parts(b.expr)
        if p and p[1] == '==' and p[2] == 0 and p[0].get('k') == 'call' and callee_name(p[0]) in ('strncmp', 'memcmp'):
            lits = [strip_casts(a) for a in p[0]['args'] if strip_casts(a).get('k') == 'str']
            if not lits:
                # the mark spelled as a constant array of the unit (static const char utf8_bom[] = "\xEF\xBB\xBF")
                for a in p[0]['args'][:2]:
                    a0 = strip_casts(a)
                    tb = _const_table(u, a0) if a0.get('k') == 'ref' else None
                    if tb is not None:
                        lits = [{'k': 'str', 'bytes': [x_ for x_ in tb[:-1]] if tb and tb[-1] == 0 else list(tb)}]
            nn = const_val(p[0]['args'][2])
            adv = None
            for y in [y for (y, l) in cfgb.succ[b.id] if l and l[0] == 'T']:
                for m in sorted(cfgb.reachable(y) | {y}):
                    mn = cfgb.nodes[m]
                    if mn.kind == 'stmt' and mn.expr.get('k') == 'bin' and mn.expr['op'] == '+=' and is_mem(mn.expr['l'], 'offset'):
                        adv = const_val(mn.expr['r'])
            okb = bool(lits) and lits[0]['bytes'] == [0xEF, 0xBB, 0xBF] and nn == 3 and adv == 3
            R.ob('TAB4', fb, b.expr, 'BOM EF BB BF: compared length %s, advance %s' % (nn, adv), okb, '', key='bom')
    R.floor('TAB4', 'parser literals', len(found), 3)


# ---- TAB5a parser escape table -----------------------------------------------------------------------------------------

RFC8259_ESCAPES = {ord('b'): 8, ord('f'): 12, ord('n'): 10, ord('r'): 13, ord('t'): 9,
                   ord('"'): 'self', ord('\\'): 'self', ord('/'): 'self', ord('u'): 'utf16'}


def _switch_arms(sw):
    """[(labels, [statements])] of a switch body; labels: ints or 'default'."""
    arms = []
    cur = None
    body = sw['body']['body'] if sw['body'].get('k') == 'compound' else [sw['body']]
    for s in body:
        labels = []
        x = s
        while x.get('k') in ('case', 'default'):
            labels.append(const_val(x['v']) if x['k'] == 'case' else 'default')
            x = x.get('sub', {'k': 'null'})
        if labels:
            cur = (labels, [x])
            arms.append(cur)
        elif cur is not None:
            cur[1].append(s)
    return arms


def tab5a(units, R):
    """The escape table of parse_string, read off its paths rather than off a switch: the decoding loop is followed with the set of
    values the two bytes under the input cursor can have (byte-path engine; a search of a constant table by strchr/memchr finds what
    C finds, terminator included).  For every value 0..255 of the byte after a backslash: the loop goes on exactly for the nine
    RFC 8259 escape letters, writes the byte the letter stands for (one byte, input advanced by two), and everything else fails."""
    from . import bytepath as bp
    u = units['cJSON.c']
    fn = u.fn('parse_string')
    ex = bp.explore(u, fn)
    BS = frozenset([ord('\\')])
    # the decoding loop: segments that start at a loop head, see a backslash under a cursor and constrain the byte after it
    cands = {}
    for sg in bp.loop_segments(ex):
        for c in sg.readers:
            if sg.bytes_at(c) == BS and sg.bytes_at(c, 1) != bp.ALL:
                cands.setdefault((sg.start, c), []).append(sg)
    heads = {}
    for (h, c), sgs in cands.items():
        if any(sg.end[0] == 'head' and any(w[3] is not None for w in sg.writes) for sg in sgs):
            heads[(h, c)] = sgs
    if len(heads) != 1:
        raise AnalysisBroken('TAB5a: the decoding loop of parse_string cannot be identified (%d candidates)' % len(heads))
    (head, cin), _ = next(iter(heads.items()))
    segs = [sg for sg in bp.loop_segments(ex, head) if sg.bytes_at(cin) == BS]
    table = {}
    bad_shape = []
    for d in range(256):
        acts = set()
        for sg in segs:
            if d not in sg.bytes_at(cin, 1):
                continue
            f = bp.feasible(ex, sg, {(sg.start_root[cin], 1): d})
            if f is False:
                continue
            if sg.end[0] == 'head':
                ws = [w for w in sg.writes if w[3] is not None]
                adv = sg.adv(cin)
                if not ws and adv != 2:
                    acts.add('call')          # converted by a callee that moves the cursor itself (the UTF-16 arm)
                elif len(ws) == 1 and adv == 2 and all(sg.adv(w[3]) == 1 for w in ws) and ws[0][1] == 0:
                    v = ws[0][2]
                    if v is not None and v[0] == 'k':
                        acts.add(v[1] & 255)
                    elif v is not None and v[0] == 'in' and v[1:] == (sg.start_root[cin], 1):
                        acts.add(d)
                    else:
                        acts.add('?')
                        bad_shape.append((d, sg.line, 'writes a value that is not determined by the escape letter'))
                else:
                    acts.add('?')
                    bad_shape.append((d, sg.line, 'writes %d byte(s), advances the input by %s' % (len(ws), adv)))
            elif sg.end[0] == 'return' and sg.end[1] == ('k', 0):
                if sg.bytes_at(cin, 1) != bp.ALL:
                    acts.add('fail')
                # failures that do not depend on the letter (buffer end) say nothing about the table
            else:
                acts.add('?')
        table[d] = acts
    n = 0
    for ch, want in RFC8259_ESCAPES.items():
        n += 1
        w = 'call' if want == 'utf16' else (ch if want == 'self' else want)
        got = table.get(ch, set()) - {'fail'} if table.get(ch) != {'fail'} else {'fail'}
        R.ob('TAB5a', fn, None, 'escape \\%s decodes to %s' % (chr(ch), 'a UTF-16 conversion' if want == 'utf16' else 'byte %d' % w),
             got == {w}, 'every path for this letter: %s' % sorted(map(str, got)), key='esc:%s' % chr(ch))
    extra = [d for d in range(256) if d not in RFC8259_ESCAPES and table[d] - {'fail'}]
    R.ob('TAB5a', fn, None, 'no escape letter outside RFC 8259 is accepted', not extra,
         'all other 247 values fail' if not extra else 'accepted after a backslash: %s' % ', '.join(
             '%s (byte %d -> %s)' % (repr(chr(d)), d, sorted(map(str, table[d] - {'fail'}))) for d in extra[:6]), key='esc-extra')
    unrej = [d for d in range(256) if d not in RFC8259_ESCAPES and not table[d]]
    R.ob('TAB5a', fn, None, 'unknown escapes are rejected', not unrej and not bad_shape,
         'a failing path exists for each' if not unrej and not bad_shape else
         ('no path at all for bytes %s' % unrej[:6] if unrej else 'byte %d, path ending at line %d: %s' % bad_shape[0]), key='esc-default')
    sw = None
    # the UTF-16 arm rejects a zero result
    cfg = fn.cfg()
    zero_checked = False
    for b in cfg.nodes:
        if b.kind == 'branch':
            p = cmp_parts(b.expr)
            if p and p[2] == 0 and p[1] in ('==', '!=') and is_ref(p[0]):
                d = strip_casts(p[0])['d']
                if any(a['op'] == '=' and is_ref(a['l']) and strip_casts(a['l'])['d'] == d and strip_casts(a['r']).get('k') == 'call'
                       and 'utf16' in (callee_name(strip_casts(a['r'])) or '') for a in assignments(fn)):
                    zero_checked = True
    R.ob('TAB5a', fn, sw, 'a failed UTF-16 conversion (result 0) is tested', zero_checked, '', key='esc-utf16-zero')
    R.floor('TAB5a', 'escape letters', n, 9)


# ---- TAB23 the scan for the closing quote ------------------------------------------------------------------------------------

def _quote_search_calls(fn):
    """calls of memchr / strchr in fn that look for the double quote"""
    out = []
    for c in fn.calls():
        if callee_name(c) in ('memchr', 'strchr', '__builtin_memchr', '__builtin_strchr') and len(c['args']) >= 2 and \
                const_val(c['args'][1]) == ord('"'):
            out.append(c)
    return out


def tab23(units, R, fn_name='parse_string'):
    """Where a string literal ends.  Before it decodes, parse_string looks for the closing quote; what the decoder later takes for the
    text of the literal is whatever lies in front of that position, so the two must agree on it: the quote that ends the literal
    is the first one that is not the second byte of an escape sequence.
      forward form (a loop that looks at every byte; byte-path engine, all 256 values of the byte under the cursor): the loop is
        left towards the decoder exactly on '"' without stepping, steps over two bytes on a backslash and over one byte on everything
        else, and leaves in no other way than by failing;
      search form (the quote is found by memchr/strchr): a quote that was found ends the literal iff the run of backslashes
        directly in front of it has even length - an inner loop walks back over the run and the branch that decides tests the
        parity of what it counted, leaving the search on the even side; looking only at the one byte in front of the quote
        takes the quote behind an escaped backslash for an escaped one."""
    from . import bytepath as bp
    u = units['cJSON.c']
    fn = u.functions.get(fn_name)
    if fn is None or fn.body is None:
        raise AnalysisBroken('TAB23: %s not found' % fn_name)
    searches = _quote_search_calls(fn)
    if searches:
        _tab23_search(u, fn, searches, R)
        return
    ex = bp.explore(u, fn)
    Q, BS = ord('"'), ord('\\')
    heads = {}
    for sg in bp.loop_segments(ex):
        heads.setdefault(sg.start, []).append(sg)
    cands = []
    for h, sgs in heads.items():
        cont = [sg for sg in sgs if sg.end == ('head', h)]
        if not cont or any(w[3] is not None for sg in cont for w in sg.writes):
            continue
        cur = {c for sg in cont for c in sg.readers}
        onward = [sg for sg in sgs if sg.end[0] == 'head' and sg.end[1] != h]
        if len(cur) == 1 and onward:
            cands.append((h, next(iter(cur)), sgs))
    if len(cands) != 1:
        raise AnalysisBroken('TAB23: the loop of %s that looks for the closing quote cannot be identified (%d candidates)' % (fn_name, len(cands)))
    h, c, sgs = cands[0]
    line = min(sg.line for sg in sgs if sg.end == ('head', h))
    acts = {d: set() for d in range(256)}
    blind = []
    for sg in sgs:
        if sg.end[0] == 'return' and sg.end[1] == ('k', 0):
            continue                    # failing is always allowed
        if c not in sg.readers:
            blind.append(sg)
            continue
        bs = sg.bytes_at(c)
        vals = range(256) if bs == bp.ALL else bs
        if sg.end == ('head', h):
            a = ('step', sg.adv(c))
        elif sg.end[0] == 'head':
            a = ('leave', sg.adv(c))
        else:
            a = ('other', str(sg.end))
        for d in vals:
            acts[d].add(a)
    R.ob('TAB23', fn, None, 'the scan for the closing quote looks at the byte under its cursor on every path', not blind,
         '' if not blind else 'a path ending at line %d goes on without reading it' % blind[0].line, key='scan-reads', line=line)
    bad_q = acts[Q] != {('leave', 0)}
    R.ob('TAB23', fn, None, 'on \'"\' the scan stops with the cursor on the quote', not bad_q,
         'it leaves towards the decoder without stepping' if not bad_q else 'paths for the quote: %s' % sorted(map(str, acts[Q])), key='scan-quote', line=line)
    bad_b = acts[BS] != {('step', 2)}
    R.ob('TAB23', fn, None, 'on a backslash the scan steps over the escaped byte as well', not bad_b,
         'two bytes' if not bad_b else 'paths for the backslash: %s - the decoder takes the byte after a backslash as part of the escape '
         'sequence, so a quote there does not end the literal' % sorted(map(str, acts[BS])), key='scan-backslash', line=line)
    wrong = [d for d in range(256) if d not in (Q, BS) and acts[d] != {('step', 1)}]
    R.ob('TAB23', fn, None, 'every other byte is stepped over alone', not wrong,
         '254 values, one byte each' if not wrong else 'byte %d: %s' % (wrong[0], sorted(map(str, acts[wrong[0]]))), key='scan-others', line=line)
    R.floor('TAB23', 'byte classes of the scan for the closing quote', 3, 3)


def _tab23_search(u, fn, searches, R):
    cfg = fn.cfg()
    succ = {m.id: {y for (y, _l) in cfg.succ[m.id]} for m in cfg.nodes}
    BS = ord('\\')

    def reach(a, avoid=()):
        seen = set()
        work = [y for y in succ[a] if y not in avoid]
        while work:
            x = work.pop()
            if x in seen:
                continue
            seen.add(x)
            work.extend(y for y in succ[x] if y not in avoid and y not in seen)
        return seen
    n = 0
    for call in searches:
        sn = cfg.node_of_expr(call['id'])
        if sn is None:
            raise AnalysisBroken('TAB23: search call at %s not placed in the CFG' % fn.where(call))
        # the found position: the variable the result is assigned to, and pointers copied from it
        found = set()
        for a in assignments(fn):
            if a['op'] == '=' and is_ref(a['l']) and any(x is call for x in walk(a['r'])):
                found.add(strip_casts(a['l'])['d'])
        for d_ in fn.locals():
            if 'init' in d_ and any(x is call for x in walk(d_['init'])):
                found.add(d_['d'])
        if not found:
            raise AnalysisBroken('TAB23: %s: what the search for the quote found is not kept in a variable' % fn.where(call))
        changed = True
        while changed:
            changed = False
            for a in assignments(fn):
                if a['op'] == '=' and is_ref(a['l']) and is_ref(a['r']) and strip_casts(a['r'])['d'] in found and strip_casts(a['l'])['d'] not in found:
                    # only copies made behind the search and in front of the next one
                    an = cfg.node_of_expr(a['id'])
                    if an is not None and an.id in reach(sn.id):
                        found.add(strip_casts(a['l'])['d'])
                        changed = True
        after = reach(sn.id)
        on_search_loop = sn.id in after
        # branches behind the search that compare a byte in front of the found position with a backslash
        looks = []
        for m in cfg.nodes:
            if m.kind != 'branch' or m.id not in after or m.expr is None:
                continue
            pc = cmp_parts(m.expr)
            if pc is None or pc[2] != BS or pc[1] not in ('==', '!='):
                continue
            rd = strip_casts(pc[0])
            base = idx = None
            if rd.get('k') == 'idx':
                base, idx = strip_casts(rd['b']), rd['i']
            elif rd.get('k') == 'un' and rd['op'] == '*':
                inner = strip_casts(rd['e'])
                if inner.get('k') == 'bin' and inner['op'] in ('+', '-'):
                    base, idx = strip_casts(inner['l']), inner['r']
            if base is None or base.get('k') != 'ref' or base['d'] not in found:
                continue
            looks.append((m, base, idx))
        if not looks:
            if on_search_loop:
                raise AnalysisBroken('TAB23: %s: how a quote found by %s is told from an escaped one is not a test of the bytes in '
                                     'front of it; this form of the scan is not modelled' % (fn.where(call), callee_name(call)))
            continue
        n += 1
        # the walk back over the run: a look that lies on a cycle which does not pass the search again
        inner = [(m, b, i) for (m, b, i) in looks if m.id in reach(m.id, avoid={sn.id})]
        single = [(m, b, i) for (m, b, i) in looks if (m, b, i) not in inner]
        for (m, b, i) in single:
            R.ob('TAB23', fn, m.expr, 'a quote found by %s is judged by the whole run of backslashes in front of it' % callee_name(call), False,
                 'the test %s looks at one byte only: behind an escaped backslash (\\\\") the quote ends the literal, but is taken for '
                 'an escaped quote, and the literal for longer than the decoder and the printer have it' % expr_str(m.expr)[:50],
                 key='search:single:%s' % expr_str(m.expr)[:40])
        if not inner:
            continue
        # what the walk counts: variables stepped on the inner cycle
        counted = set()
        for (m, b, i) in inner:
            cyc = reach(m.id, avoid={sn.id}) & {x for x in succ if m.id in reach(x, avoid={sn.id})}
            for x in cyc | {m.id}:
                for ev in node_effects(cfg.nodes[x]):
                    if ev.kind in ('incdec', 'store') and is_ref(ev.lhs):
                        counted.add(strip_casts(ev.lhs)['d'])
        parity = []
        for m in cfg.nodes:
            if m.kind != 'branch' or m.id not in after or m.expr is None:
                continue
            e = strip_casts(m.expr)
            even_label = None
            pc = cmp_parts(e)
            core = e
            if pc is not None and pc[1] in ('==', '!=') and pc[2] in (0, 1):
                core = strip_casts(pc[0])
                even_label = 'T' if (pc[1] == '==') == (pc[2] == 0) else 'F'
            else:
                neg = False
                while core.get('k') == 'un' and core['op'] == '!':
                    neg = not neg
                    core = strip_casts(core['e'])
                even_label = 'T' if neg else 'F'
            if not (core.get('k') == 'bin' and ((core['op'] == '&' and const_val(core['r']) == 1) or (core['op'] == '%' and const_val(core['r']) == 2))):
                continue
            if not any(x.get('k') == 'ref' and x.get('d') in counted for x in walk(core['l'])):
                continue
            parity.append((m, even_label))
        if not parity:
            R.ob('TAB23', fn, inner[0][0].expr, 'the length of the run of backslashes in front of a found quote decides by its parity', False,
                 'the run is walked but no branch tests whether its length is even', key='search:noparity')
            continue
        for (m, even_label) in parity:
            tgt = {l[0]: y for (y, l) in cfg.succ[m.id] if l is not None and l[0] in ('T', 'F')}
            ev_t, odd_t = tgt.get(even_label), tgt.get('F' if even_label == 'T' else 'T')
            leaves = ev_t is not None and sn.id not in (reach(ev_t) | {ev_t})
            goes_on = odd_t is not None and (not on_search_loop or sn.id in (reach(odd_t) | {odd_t}))
            R.ob('TAB23', fn, m.expr, 'an even run of backslashes in front of a found quote ends the literal, an odd one does not', leaves and goes_on,
                 'even: the search is over; odd: it goes on behind the quote' if leaves and goes_on else
                 ('on an even run the search goes on' if not leaves else 'on an odd run the search stops'), key='search:parity')
    R.floor('TAB23', 'quotes found by searching and judged by the bytes in front of them', n, 1)


# ---- OUT9 the decoded string fits the block allocated for it -----------------------------------------------------------------------

def _lin9(u, e, env):
    """(const, {symbol: coeff}) of a size expression over pointers and counters of parse_string; None when not linear.
    Symbols: 'content', 'off', 'len' for the fields of the parse buffer, variable names otherwise."""
    e = strip_casts(e)
    v = const_val(e)
    if v is not None:
        return (v, {})
    k = e.get('k')
    if k == 'mem' and e['f'] in ('content', 'offset', 'length') and e.get('arrow'):
        return (0, {{'content': 'content', 'offset': 'off', 'length': 'len'}[e['f']]: 1})
    if k == 'bin' and e['op'] in ('+', '-'):
        l, r = strip_casts(e['l']), strip_casts(e['r'])
        a, b = _lin9(u, l, env), _lin9(u, r, env)
        if a is None or b is None:
            return None
        sg = 1 if e['op'] == '+' else -1
        t = dict(a[1])
        for kk, vv in b[1].items():
            t[kk] = t.get(kk, 0) + sg * vv
        return (a[0] + sg * b[0], {kk: vv for kk, vv in t.items() if vv != 0})
    if k == 'ref':
        if e['d'] in env:
            return env[e['d']]
        return (0, {e['n']: 1})
    return None


def out9(units, R, fn_name='parse_string'):
    """The decoder of parse_string writes into a block whose size was computed by the scan in front of it; that the text fits is a
    count over the whole literal, assembled here from facts about single steps:
      scan     every step that counts an escape (K += 1) covers two bytes, no step counts more than one, K starts at 0;
      block    size >= (E - S) - K + 1 as linear expressions, E the end the decoder runs to, S where decoder and scan start;
      decoder  starts where the scan started, stops at E, and every turn of its loop writes no more than it consumes less the
               escapes the scan can have counted in those bytes: one byte for one plain byte, ceil(a/2) bytes for a bytes that
               begin with a backslash (for the UTF-16 arm, whose callee moves both cursors: every successful path of
               utf16_literal_to_utf8 writes at most half of what it reports as consumed; value-set engine of TAB6);
      end      one more byte, the terminator, after the loop.
    Together: bytes written <= (E - S) - K + 1 <= size.  (That the bytes of a \\uXXXX sequence are hex digits, hence whole scan
    steps, is TAB21/TAB6's finding.)"""
    from . import bytepath as bp
    from . import codeset
    u = units['cJSON.c']
    fn = u.functions.get(fn_name)
    if fn is None or fn.body is None:
        raise AnalysisBroken('OUT9: %s not found' % fn_name)
    ex = bp.explore(u, fn)
    BS = ord('\\')
    heads = {}
    for sg in bp.loop_segments(ex):
        heads.setdefault(sg.start, []).append(sg)
    # the decoder: the loop whose turns write through a cursor and read through another
    dec = []
    for h, sgs in heads.items():
        cont = [sg for sg in sgs if sg.end == ('head', h)]
        outs = {w[3] for sg in cont for w in sg.writes if w[3] is not None}
        ins = {c for sg in cont for c in sg.readers}
        if len(outs) == 1 and len(ins) == 1:
            dec.append((h, next(iter(ins)), next(iter(outs)), sgs))
    if len(dec) != 1:
        raise AnalysisBroken('OUT9: the decoding loop of %s cannot be identified (%d candidates)' % (fn_name, len(dec)))
    H2, c2, o, dsegs = dec[0]
    # the scan in front of it (forward form), if there is one
    scan = []
    for h, sgs in heads.items():
        cont = [sg for sg in sgs if sg.end == ('head', h)]
        if h != H2 and cont and not any(w[3] is not None for sg in cont for w in sg.writes) and any(sg.end == ('head', H2) for sg in sgs):
            cur = {c for sg in cont for c in sg.readers}
            if len(cur) == 1:
                scan.append((h, next(iter(cur)), sgs))
    searches = _quote_search_calls(fn)
    if searches:
        scan = []       # the end is found by searching: there is no step-by-step scan to take facts from
    if len(scan) > 1 or (not scan and not searches):
        raise AnalysisBroken('OUT9: the scan in front of the decoder of %s cannot be identified' % fn_name)
    cfg = fn.cfg()
    line2 = min(sg.line for sg in dsegs if sg.end == ('head', H2))
    # E: what the decoder's cursor is compared with at the head of its loop
    E = None
    hn = cfg.nodes[H2] if isinstance(H2, int) and H2 < len(cfg.nodes) else None
    for m in cfg.nodes:
        if m.kind != 'branch' or m.expr is None:
            continue
        e = strip_casts(m.expr)
        if e.get('k') == 'bin' and e['op'] in ('<', '!=') and is_ref(e['l']) and strip_casts(e['l'])['n'] == c2 and is_ref(e['r']) and \
                any(sg.end == ('head', H2) for sg in dsegs) and m.line == (hn.line if hn is not None else m.line):
            E = strip_casts(e['r'])
            guard = m
            break
    if E is None:
        raise AnalysisBroken('OUT9: the bound of the decoding loop of %s (cursor < end) not found' % fn_name)
    if any(sg.adv(E['n']) not in (0,) for sg in dsegs if sg.end == ('head', H2) and E['n'] in sg.pos):
        raise AnalysisBroken('OUT9: the end %s moves inside the decoding loop' % E['n'])
    # where the cursors start and what the block's size is
    inits = {}
    for d_ in fn.locals():
        if 'init' in d_:
            inits.setdefault(d_['n'], []).append(d_['init'])
    cfg9 = fn.cfg()
    heads9 = {n_.id for n_ in cfg9.nodes if n_.kind == 'nop' and n_.name == 'loop-head'}
    for a in assignments(fn):
        if is_ref(a['l']):
            an_ = cfg9.node_of_expr(a['id'])
            if an_ is not None and heads9 and not (cfg9.reachable(an_.id) & heads9):
                continue        # set on the way out (the failure position handed to the error report): no loop sees it
            inits.setdefault(strip_casts(a['l'])['n'], []).append(a['r'] if a['op'] == '=' else None)
    stepped = {strip_casts(x['e'])['n'] for x in fn.nodes() if x.get('k') == 'un' and x.get('op') in ('pre++', 'pre--', 'post++', 'post--')
               and is_ref(x['e'])}

    # single-definition locals that are never stepped are what they were defined as (allocation_length, a cached content pointer)
    env = {}
    decl_of = {d_['n']: d_ for d_ in fn.locals()}
    compound = {strip_casts(a_['l'])['n'] for a_ in assignments(fn) if is_ref(a_['l']) and a_['op'] != '='}
    for _round in range(3):
        for d_ in fn.locals():
            if u.ty(d_['ty'])['c'] not in ('int', 'ptr') or d_['n'] in stepped or d_['n'] in compound:
                continue
            vals = [v for v in inits.get(d_['n'], [])]
            vals = [v for v in vals if not (v is not None and (const_val(v) == 0 or is_null_const(v) or strip_casts(v).get('null')) and len(vals) > 1)]
            if len(vals) == 1 and vals[0] is not None and strip_casts(vals[0]).get('k') != 'call':
                l_ = _lin9(u, vals[0], env)
                if l_ is not None and d_['n'] not in l_[1]:
                    env[d_['d']] = l_

    def form(name_or_pair):
        """linear position of a cursor as it moves: a pointer variable is its own symbol, content[i] is the base plus the index"""
        if isinstance(name_or_pair, tuple):
            b_, i_ = name_or_pair
            bd = decl_of.get(b_)
            base = env.get(bd['d']) if bd is not None and bd['d'] in env else (0, {b_: 1})
            t_ = dict(base[1])
            t_[i_] = t_.get(i_, 0) + 1
            return (base[0], t_)
        return (0, {name_or_pair: 1})

    def start_of(name_or_pair):
        if isinstance(name_or_pair, tuple):
            b_, i_ = name_or_pair
            si = start_of(i_)
            bd = decl_of.get(b_)
            base = env.get(bd['d']) if bd is not None and bd['d'] in env else (0, {b_: 1})
            if si is None:
                return None
            t_ = dict(base[1])
            for kk, vv in si[1].items():
                t_[kk] = t_.get(kk, 0) + vv
            return (base[0] + si[0], {kk: vv for kk, vv in t_.items() if vv})
        vals = [v for v in inits.get(name_or_pair, []) if v is None or not (is_null_const(v) or strip_casts(v).get('null'))]
        vals = [v for v in vals if v is not None]       # steps of the cursor itself are not its start
        forms = {repr(_lin9(u, v, env)) for v in vals}
        if len(forms) != 1 or 'None' in forms:
            # a cursor that is re-based once behind its initialiser starts there only if the initialiser is what the loop sees;
            # take the initialiser when every later definition lies behind the loops (the decoder's end, set after the scan)
            return None
        return _lin9(u, vals[0], env)
    S2 = start_of(c2)
    if S2 is None:
        raise AnalysisBroken('OUT9: where the decoder of %s starts (%s) is not one linear position' % (fn_name, c2))
    n = 0
    K = None
    # where the decoder stops, as a position
    Eform = (0, {E['n']: 1})
    if E['n'] not in stepped:
        edefs = [a_['r'] for a_ in assignments(fn) if is_ref(a_['l']) and strip_casts(a_['l'])['n'] == E['n'] and a_['op'] == '=' and
                 not (is_null_const(a_['r']) or strip_casts(a_['r']).get('null'))]
        eforms = {repr(_lin9(u, v, env)) for v in edefs}
        if len(eforms) == 1 and 'None' not in eforms:
            Eform = _lin9(u, edefs[0], env)
    if scan:
        H1, c1, ssegs = scan[0]
        S1 = start_of(c1)
        same = Eform == form(c1)
        n += 1
        R.ob('OUT9', fn, None, 'the decoder runs over what the scan measured', same and S1 == S2,
             'both start at %s and the decoder stops where the scan did (%s)' % (S2, E['n']) if same and S1 == S2 else
             'scan: from %s to %s; decoder: from %s to %s' % (S1, form(c1), S2, Eform), key='same-region', line=line2)
    # the block
    root = None
    for sg in ex.segments:
        if sg.end == ('head', H2) and sg.start != H2 and o in sg.pos:
            r_ = sg.pos[o][0]
            if r_ and r_[0] == 'a' and sg.pos[o][1] == 0:
                root = r_
    if root is None:
        raise AnalysisBroken('OUT9: the output cursor %s does not start at the beginning of a block allocated in %s' % (o, fn_name))
    allocs = [a for a in assignments(fn) if is_ref(a['l']) and strip_casts(a['l'])['n'] == root[1] and a['op'] == '=' and
              strip_casts(a['r']).get('k') == 'call' and strip_casts(a['r']).get('args')]
    if len(allocs) != 1:
        raise AnalysisBroken('OUT9: %d allocations of %s in %s' % (len(allocs), root[1], fn_name))
    size_e = strip_casts(allocs[0]['r'])['args'][-1] if callee_name(strip_casts(allocs[0]['r'])) in ('realloc',) else strip_casts(allocs[0]['r'])['args'][0]
    size = _lin9(u, size_e, env)
    if size is None:
        raise AnalysisBroken('OUT9: the size %s of the output block is not linear' % expr_str(size_e)[:60])
    # pointers that still stand where they started when the block is allocated
    terms = dict(size[1])
    const = size[0]
    if c2 in terms:
        k_ = terms.pop(c2)
        const += k_ * S2[0]
        for kk, vv in S2[1].items():
            terms[kk] = terms.get(kk, 0) + k_ * vv
    if E['n'] in terms and Eform != (0, {E['n']: 1}):
        # the end is a variable set once behind the scan: in the size it stands for what it was set to
        k_ = terms.pop(E['n'])
        const += k_ * Eform[0]
        for kk, vv in Eform[1].items():
            terms[kk] = terms.get(kk, 0) + k_ * vv
    # need = (E - S2) - K + 1
    need_terms = dict(Eform[1])
    for kk, vv in S2[1].items():
        need_terms[kk] = need_terms.get(kk, 0) - vv
    need_const = Eform[0] - S2[0] + 1
    diff = {kk: terms.get(kk, 0) - need_terms.get(kk, 0) for kk in set(terms) | set(need_terms)}
    diff = {kk: vv for kk, vv in diff.items() if vv != 0}
    counters = [kk for kk, vv in diff.items() if vv == -1 and kk in {d_['n'] for d_ in fn.locals() if u.ty(d_['ty'])['c'] == 'int'}]
    if len(counters) == 1 and scan:
        K = counters[0]
        diff.pop(K)
    elif len(counters) == 1 and searches:
        # search form: the count may only grow by one per quote that was found and judged escaped (an odd run of backslashes in
        # front of it): each of those is a two-byte escape of its own for the decoder
        Kn = counters[0]
        odd_edges = []
        for m in cfg.nodes:
            if m.kind != 'branch' or m.expr is None:
                continue
            e = strip_casts(m.expr)
            pc = cmp_parts(e)
            core, even_label = e, None
            if pc is not None and pc[1] in ('==', '!=') and pc[2] in (0, 1):
                core = strip_casts(pc[0])
                even_label = 'T' if (pc[1] == '==') == (pc[2] == 0) else 'F'
            else:
                neg = False
                while core.get('k') == 'un' and core['op'] == '!':
                    neg = not neg
                    core = strip_casts(core['e'])
                even_label = 'T' if neg else 'F'
            if core.get('k') == 'bin' and ((core['op'] == '&' and const_val(core['r']) == 1) or (core['op'] == '%' and const_val(core['r']) == 2)):
                odd_edges.append((m.id, 'F' if even_label == 'T' else 'T'))
        steps_ok = bool(odd_edges)
        for m in cfg.nodes:
            for ev in node_effects(m):
                if ev.kind in ('incdec', 'store') and is_ref(ev.lhs) and strip_casts(ev.lhs)['n'] == Kn:
                    one = (ev.kind == 'incdec' and ev.delta == 1) or (ev.kind == 'store' and ev.node['op'] == '=' and const_val(ev.node['r']) == 0)
                    behind_odd = ev.kind == 'store' or guarded_by(cfg, m.id, lambda nd, l: l is not None and (nd.id, l[0]) in odd_edges)
                    on_inner_cycle = False
                    if ev.kind == 'incdec':
                        sn_ids = {cfg.node_of_expr(c_['id']).id for c_ in searches if cfg.node_of_expr(c_['id']) is not None}
                        seen, work = set(), [y for (y, _l) in cfg.succ[m.id]]
                        while work:
                            x = work.pop()
                            if x == m.id:
                                on_inner_cycle = True
                                break
                            if x in seen or x in sn_ids:
                                continue
                            seen.add(x)
                            work.extend(y for (y, _l) in cfg.succ[x])
                    if not one or not behind_odd or on_inner_cycle:
                        steps_ok = False
        if not steps_ok:
            raise AnalysisBroken('OUT9: %s: the size of the output block is reduced by %s, which is not a count of quotes found behind an odd '
                                 'run of backslashes; this way of saving bytes is not modelled' % (fn.where(allocs[0]), Kn))
        K = None
        diff.pop(Kn)
        n += 1
        R.ob('OUT9', fn, allocs[0], 'the block is smaller than the literal only by one byte per escaped quote that was found', True, Kn, key='k-search')
    slack = const - need_const
    n += 1
    okb = not diff and slack >= 0
    R.ob('OUT9', fn, allocs[0], 'the output block has room for every byte of the literal that is not saved by a counted escape, and the terminator',
         okb, 'size = (%s - start)%s + 1 + %d' % (E['n'], ' - %s' % K if K else '', slack) if okb else
         'size %s against the %s - start%s + 1 bytes the decoder can write: %s' % (
             expr_str(size_e)[:50], E['n'], ' - %s' % K if K else '',
             ('short by %d' % -slack) if not diff else 'terms left over %s' % sorted(diff.items())), key='block')
    # the scan's counter
    if K is not None:
        H1, c1, ssegs = scan[0]
        entry = [sg for sg in ex.segments if sg.start == 'entry' and sg.end == ('head', H1)]
        zero = entry and all(sg.vals.get(K) == ('k', 0) for sg in entry)
        n += 1
        R.ob('OUT9', fn, None, 'the count of saved bytes starts at 0', bool(zero), K, key='k-init', line=line2)
        worst = None
        for sg in ssegs:
            if sg.end[0] != 'head':
                continue
            dv = sg.vals.get(K)
            a_ = sg.adv(c1)
            if dv is None or dv[0] != 'd' or a_ is None:
                worst = worst or (sg.line, 'the step or the count on a path ending at line %d is not known' % sg.line)
            elif dv[1] < 0 or dv[1] > max(a_ - 1, 0) or dv[1] > 1:
                worst = worst or (sg.line, 'a step of %d byte(s) counts %d saved' % (a_, dv[1]))
        n += 1
        R.ob('OUT9', fn, None, 'a step of the scan counts one saved byte at most, and only when it covers two bytes', worst is None,
             K if worst is None else worst[1], key='k-step', line=line2)
    # the decoder's turns
    worst = None
    ncall = 0
    for sg in dsegs:
        if sg.end != ('head', H2):
            continue
        a_ = sg.adv(c2)
        ws = [w for w in sg.writes if w[3] == o]
        first = sg.bytes_at(c2)
        led = first != bp.ALL and first == frozenset([BS])
        if a_ is None:
            if ws or not led:
                worst = worst or 'a turn ending at line %d consumes an unknown number of bytes' % sg.line
            ncall += 1
            continue
        moved = sg.adv(o)
        if (moved is None or moved != len(ws) or sorted(w[1] for w in ws) != list(range(len(ws)))):
            # a turn that copies a run of bytes whose length is computed (memcpy(out, in, n); out += n; in += n): the byte-by-byte
            # account of this rule does not apply
            for nd_ in fn.cfg().nodes:
                root_ = getattr(nd_, 'expr', None)
                if root_ is None:
                    continue
                for c_ in walk(root_):
                    if c_.get('k') == 'call' and callee_name(c_) in ('memcpy', '__builtin_memcpy', '__builtin___memcpy_chk', 'memmove') and \
                            len(c_['args']) == 3 and const_val(c_['args'][2]) is None and is_ref(c_['args'][0]) and \
                            strip_casts(c_['args'][0])['n'] == (o if isinstance(o, str) else o[0]):
                        raise AnalysisBroken('OUT9: %s: the decoder of %s copies %s bytes at once; this rule accounts for the output byte by '
                                             'byte' % (fn.where(c_), fn_name, expr_str(strip_casts(c_['args'][2]))[:30]))
        if moved is None or moved != len(ws) or sorted(w[1] for w in ws) != list(range(len(ws))):
            worst = worst or 'a turn ending at line %d writes at positions that are not consecutive' % sg.line
            continue
        allowed = (a_ + 1) // 2 if led else (1 if (a_ == 1 and (first == bp.ALL or BS not in first)) else 0)
        if first != bp.ALL and BS in first and not led:
            worst = worst or 'a turn ending at line %d treats the backslash together with other bytes' % sg.line
        elif len(ws) > allowed:
            worst = worst or 'a turn ending at line %d consumes %d byte(s) and writes %d' % (sg.line, a_, len(ws))
    n += 1
    R.ob('OUT9', fn, None, 'every turn of the decoder writes no more than it consumes less the escapes counted there', worst is None,
         'one for one, one for two' if worst is None else worst, key='turns', line=line2)
    if ncall:
        # the arm whose callee moves both cursors
        callee = None
        for c in fn.calls():
            g = u.functions.get(callee_name(c))
            if g is not None and any(strip_casts(a).get('k') == 'un' and strip_casts(a)['op'] == '&' and
                                     strip_casts(strip_casts(a)['e']).get('n') == o for a in c['args']):
                callee = g
        if callee is None:
            raise AnalysisBroken('OUT9: a turn of the decoder of %s consumes an unknown number of bytes and no callee is handed the output cursor' % fn_name)
        d2 = codeset.Decoder(u, callee)
        badp = None
        npaths = 0
        for (pth, r, node) in d2.run():
            rv = d2.fn_of(r, [])() if r is not None and not codeset._vars_in(r) else None
            if rv == 0:
                continue
            if rv is None or pth.advance in (None, '?') or codeset._vars_in(pth.advance or ''):
                raise AnalysisBroken('OUT9: what %s writes or returns on the path ending at line %d is not known' % (callee.name, node.line))
            adv = d2.fn_of(pth.advance, [])()
            npaths += 1
            if 2 * adv > rv or (pth.writes and max(pth.writes) >= adv):
                badp = badp or (node.line, rv, adv)
        n += 1
        R.ob('OUT9', callee, None, 'a converted escape writes at most half of the bytes it reports as consumed', badp is None and npaths > 0,
             '%d successful paths' % npaths if badp is None else 'the path ending at line %d reports %d consumed and writes %d' % badp, key='callee')
    # the terminator
    tails = [sg for sg in dsegs if sg.end[0] == 'return' and sg.end[1] == ('k', 1)]
    bad_t = [sg for sg in tails if len([w for w in sg.writes if w[3] == o]) > 1 or any(w[1] != 0 for w in sg.writes if w[3] == o)]
    n += 1
    R.ob('OUT9', fn, None, 'behind the loop one byte, the terminator, is written where the cursor stands', bool(tails) and not bad_t,
         '%d leaving paths' % len(tails), key='terminator', line=line2)
    R.floor('OUT9', 'clauses of the output bound of %s' % fn_name, n, 4)


# ---- TAB24: the depth bounds are exactly the documented limits ---------------------------------------------------------------------

def _depth_gate(e, is_depth):
    """(op, K, pass label) for a branch condition that compares the depth quantity with a constant: the edge on which the level is
    allowed to go on"""
    e = strip_casts(e)
    neg = False
    while e.get('k') == 'un' and e['op'] == '!':
        neg = not neg
        e = strip_casts(e['e'])
    if e.get('k') != 'bin' or e['op'] not in ('<', '<=', '>', '>='):
        return None
    l, r = strip_casts(e['l']), strip_casts(e['r'])
    op = e['op']
    if is_depth(r) and const_val(l) is not None:
        l, r = r, l
        op = {'<': '>', '<=': '>=', '>': '<', '>=': '<='}[op]
    if not (is_depth(l) and const_val(r) is not None):
        return None
    K = const_val(r)
    # normalise to a refusal test  depth >= K  /  depth > K  and the label on which it does NOT refuse
    if op in ('>=', '>'):
        return (op, K, 'T' if neg else 'F')
    return ({'<': '>=', '<=': '>'}[op], K, 'F' if neg else 'T')


def tab1_bound(units, R, dup_name='cJSON_Duplicate_rec', floor=2):
    """The two recursion bounds are the documented ones, to the level.
      parser      a text with exactly CJSON_NESTING_LIMIT nested containers is accepted: every test of the depth counter on the way
                  into a container sees the number of containers that enclose it (the counter before this level's own increment)
                  and refuses at `>= LIMIT` - or sees it after the increment and refuses at `> LIMIT`; a test that looks at the
                  counter after the level has been counted and still refuses at `>=` rejects the LIMIT-th level;
      duplicator  a node LIMIT levels below the root is copied, one level more is refused: a test of the depth parameter that every
                  successful return lies behind judges the node itself (it must let depth == LIMIT pass: `>`), a test that only
                  the recursive call lies behind judges the children, which are one deeper (`>=`)."""
    u = units['cJSON.c']
    n = 0
    # ---- parser: the depth member of the parse buffer
    from .bnd import parse_family
    try:
        fam = parse_family(u)
    except AnalysisBroken:
        fam = []            # a unit without a parser (fixtures): only the duplicator is judged
    famnames = {f.name for f in fam}
    limit = None

    def is_counter(x):
        x = strip_casts(x)
        return x.get('k') == 'mem' and x['f'] == 'depth'
    gates = []
    for fn in fam:
        cfg = fn.cfg()
        for m in cfg.nodes:
            if m.kind == 'branch' and m.expr is not None:
                g = _depth_gate(m.expr, is_counter)
                if g is not None:
                    gates.append((fn, cfg, m, g))
    callers = {}
    for fn in fam:
        for c in fn.calls():
            if callee_name(c) in famnames:
                callers.setdefault(callee_name(c), []).append((fn, c))

    def incs_before(fn, cfg, node_id, seen):
        """number of depth increments every path from the entry of the level (parse_value) to this node passes"""
        count = 0
        for m in cfg.nodes:
            for ev in node_effects(m):
                if ev.kind == 'incdec' and ev.delta > 0 and is_counter(ev.lhs) and m.id != node_id:
                    if node_id not in cfg.reachable(cfg.entry.id, stop={m.id}):
                        count += 1
        if fn.name == 'parse_value' or fn.name in seen:
            return {count}
        outs = set()
        for (g, c) in callers.get(fn.name, []):
            gcfg = g.cfg()
            cn = gcfg.node_of_expr(c['id'])
            if cn is None:
                continue
            for k in incs_before(g, gcfg, cn.id, seen | {fn.name}):
                outs.add(count + k)
        return outs or {count}
    for (fn, cfg, m, (op, K, passlab)) in gates:
        for c_before in sorted(incs_before(fn, cfg, m.id, frozenset())):
            n += 1
            # the test sees (enclosing containers + c_before); level k (k-1 enclosing) passes iff k-1+c_before < K (>=) or <= K (>)
            max_levels = K - c_before if op == '>=' else K - c_before + 1
            R.ob('TAB24', fn, m.expr, 'a text nested exactly %d containers deep is accepted' % K, max_levels == K,
                 'the counter is tested before this level is counted' if (max_levels == K and c_before == 0) else
                 ('the counter is tested after this level was counted, against > %d' % K if max_levels == K else
                  'the test %s sees the counter after %d increment(s) of this level and refuses from %s %d on: at most %d levels are '
                  'accepted' % (expr_str(m.expr)[:40], c_before, op, K, max_levels)), key='parse-gate:%s:%d' % (fn.name, c_before))
    # ---- duplicator: the depth parameter
    dup = u.functions.get(dup_name)
    if dup is not None and dup.body is not None:
        ints = [p_ for p_ in dup.params if u.ty(p_['ty'])['c'] == 'int' and not u.ty(p_['ty']).get('bool')]
        rec = [c for c in dup.calls() if callee_name(c) == dup.name]
        dpar = None
        step = None
        for p_ in ints:
            i_ = [k for k, q in enumerate(dup.params) if q['d'] == p_['d']][0]
            for c in rec:
                a = strip_casts(c['args'][i_]) if i_ < len(c['args']) else {}
                if a.get('k') == 'bin' and a['op'] == '+' and strip_casts(a['l']).get('d') == p_['d'] and const_val(a['r']) is not None:
                    dpar, step = p_, const_val(a['r'])
        if dpar is not None and rec:
            cfg = dup.cfg()

            def is_dpar(x):
                x = strip_casts(x)
                return x.get('k') == 'ref' and x.get('d') == dpar['d']
            succ_rets = [r_ for r_ in cfg.returns() if r_.expr is not None and not is_null_const(r_.expr) and const_val(r_.expr) != 0]
            for m in cfg.nodes:
                if m.kind != 'branch' or m.expr is None:
                    continue
                g = _depth_gate(m.expr, is_dpar)
                if g is None:
                    continue
                op, K, passlab = g
                n += 1
                judges_node = bool(succ_rets) and all(guarded_by(cfg, r_.id, lambda nn, l, m=m, passlab=passlab: nn.id == m.id and l is not None and l[0] == passlab)
                                                      for r_ in succ_rets)
                deepest = (K - 1 if op == '>=' else K) + (0 if judges_node else step)
                R.ob('TAB24', dup, m.expr, 'a node exactly %d levels below the root is copied, one level more is refused' % K, deepest == K,
                     ('the test judges the %s' % ('node itself' if judges_node else 'children, which are %d deeper' % step)) if deepest == K else
                     'the test %s lies in front of every successful return, so it judges the node itself: the deepest node copied is at '
                     'level %d' % (expr_str(m.expr)[:40], deepest) if judges_node else
                     'the test %s judges the children (depth + %d): the deepest node copied is at level %d' % (expr_str(m.expr)[:40], step, deepest),
                     key='dup-gate')
    R.floor('TAB24', 'tests of a recursion depth against its limit', n, floor)


# ---- TAB6 UTF-16 / UTF-8 constants ----------------------------------------------------------------------------------------

def tab6(units, R):
    u = units['cJSON.c']
    fn = u.fn('utf16_literal_to_utf8')
    bounds = {}
    for x in fn.nodes():
        if x.get('k') != 'bin' or x['op'] not in ('<', '<=', '>', '>='):
            continue
        p = cmp_parts(x)
        if p is None or not is_ref(p[0]):
            continue
        name = strip_casts(p[0])['n']
        op, c = p[1], p[2]
        b = c if op in ('>=', '<') else c + 1     # x >= c / x < c  -> boundary c ;  x > c / x <= c -> boundary c+1
        bounds.setdefault(name, []).append(b)
    want = {
        'first_code': sorted([0xD800, 0xDC00, 0xDC00, 0xE000]),
        'second_code': sorted([0xDC00, 0xE000]),
        'codepoint': sorted([0x80, 0x800, 0x10000, 0x110000]),
    }
    for name, w in want.items():
        got = sorted(b for b in bounds.get(name, []) if b > 6)
        R.ob('TAB6', fn, None, 'range boundaries of %s are %s' % (name, [hex(v) for v in w]), got == w,
             'found %s' % [hex(v) for v in got], key='bounds:' + name)
    consts = {}
    for x in fn.nodes():
        if x.get('k') == 'bin' and x['op'] in ('&', '|', '<<', '>>', '+', '>>=', '&=', '|='):
            for side in (x['l'], x['r']):
                v = const_val(side)
                if v is not None and strip_casts(side).get('k') in ('int', 'cast'):
                    consts.setdefault(x['op'].rstrip('='), []).append(v)
    exp = {'+': [0x10000], '&': sorted([0x3FF, 0x3FF, 0xBF, 0xFF, 0x7F]), '<<': [10], '|': [0x80], '>>': [6]}
    for op, w in exp.items():
        got = sorted(v for v in consts.get(op, []) if v not in (2, 6) or op == '>>')
        R.ob('TAB6', fn, None, 'constants of %s are %s' % (op, [hex(v) for v in w]), sorted(got) == sorted(w),
             'found %s' % [hex(v) for v in sorted(got)], key='consts:' + op)
    # length / first-byte-mark pairs
    marks = {}
    for s in fn.nodes():
        if s.get('k') == 'compound':
            ln = mk = None
            for x in s['body']:
                if x.get('k') == 'bin' and x['op'] == '=' and is_ref(x['l']):
                    nm = strip_casts(x['l'])['n']
                    if nm == 'utf8_length':
                        ln = const_val(x['r'])
                    if nm == 'first_byte_mark':
                        mk = const_val(x['r'])
            if ln is not None:
                marks[ln] = mk
    R.ob('TAB6', fn, None, 'UTF-8 length / lead-byte marks are 1:-, 2:0xC0, 3:0xE0, 4:0xF0', marks == {1: None, 2: 0xC0, 3: 0xE0, 4: 0xF0},
         'found %s' % {k: (hex(v) if v is not None else None) for k, v in sorted(marks.items())}, key='marks')
    R.floor('TAB6', 'constant groups', len(bounds) + len(consts), 6)


# ---- TAB17 in-band failure results are honoured -----------------------------------------------------------------------------

# static functions that report failure in-band: name -> sentinel (0 = zero/false, 'null' = NULL pointer)
SENTINELS = {
    'parse_hex4': 0, 'utf16_literal_to_utf8': 0, 'parse_number': 0, 'parse_string': 0, 'parse_value': 0, 'parse_array': 0,
    'parse_object': 0, 'print_number': 0, 'print_string_ptr': 0, 'print_string': 0, 'print_value': 0, 'print_array': 0,
    'print_object': 0, 'ensure': 'null', 'decode_array_index_from_pointer': 0, 'insert_item_in_array': 0,
}
# exceptions: a zero result that is also a legitimate value and whose callers deal with it
SENTINEL_NOTE = {'parse_hex4': 'zero is also the value of "0000"; \\u0000 is documented as unsupported, so both must be refused'}


FAILURE_IS_NONZERO = {'apply_patch'}    # returns a status code: 0 = success


def _env_transfer(nd, env):
    """Constant propagation step for simple locals (integers and NULL pointers, NULL encoded as 0)."""
    root = nd.expr if nd.expr is not None else None
    if nd.kind == 'decl':
        d = nd.decl
        if 'init' in d:
            v = const_val(d['init'])
            if v is None and is_null_const(d['init']):
                v = 0
            if v is not None:
                env[d['d']] = v
            else:
                env.pop(d['d'], None)
        return env
    if root is None:
        return env
    for x in walk(root):
        if x.get('k') == 'bin' and x['op'] in ASSIGN_OPS and is_ref(x['l']):
            d = strip_casts(x['l'])['d']
            v = const_val(x['r']) if x['op'] == '=' else None
            if v is None and x['op'] == '=' and is_null_const(x['r']):
                v = 0
            if v is not None:
                env[d] = v
            else:
                env.pop(d, None)
        elif x.get('k') == 'un' and x['op'] in ('post++', 'post--', 'pre++', 'pre--', '&') and is_ref(x['e']):
            env.pop(strip_casts(x['e'])['d'], None)
    return env


def _const_env(fn, cfg):
    from ..dataflow import solve

    def join(a, b):
        return {k: v for k, v in a.items() if b.get(k) == v}
    return solve(cfg, {}, lambda n, s: _env_transfer(n, dict(s)), lambda n, l, s: s, join)


def _failure_value(fn, u):
    """What a function itself returns on failure: 0/false/NULL for everything in this code base."""
    return 0


def _int_under(e, var_d, K):
    """Integer value of e when var_d holds the integer K and e mentions no other variable (None otherwise)."""
    v = const_val(e)
    if v is not None:
        return v
    e = strip_casts(e)
    k = e.get('k')
    if k == 'ref':
        return K if (e.get('d') == var_d and isinstance(K, int)) else None
    if k == 'bin' and e['op'] in ('+', '-', '*', '&', '|', '^', '<<', '>>'):
        l, r = _int_under(e['l'], var_d, K), _int_under(e['r'], var_d, K)
        if l is None or r is None:
            return None
        return {'+': l + r, '-': l - r, '*': l * r, '&': l & r, '|': l | r, '^': l ^ r, '<<': l << (r & 63), '>>': l >> (r & 63)}[e['op']]
    if k == 'bin' and e['op'] in CMP_OPS:
        l, r = _int_under(e['l'], var_d, K), _int_under(e['r'], var_d, K)
        if l is None or r is None:
            return None
        return int({'==': l == r, '!=': l != r, '<': l < r, '<=': l <= r, '>': l > r, '>=': l >= r}[e['op']])
    if k == 'un' and e['op'] in ('-', '~', '!'):
        x = _int_under(e['e'], var_d, K)
        if x is None:
            return None
        return {'-': -x, '~': ~x, '!': int(not x)}[e['op']]
    return None


def _fold_under(e, var_d, K):
    """Truth of condition e under the hypothesis that variable var_d holds K (None if undecided)."""
    e = strip_casts(e)
    if e.get('k') == 'ref' and e.get('d') == var_d:
        return (K != 0) if K != 'null' else False
    if isinstance(K, int) and not isinstance(K, bool):
        v = _int_under(e, var_d, K)
        if v is not None and any(x.get('k') == 'ref' and x.get('d') == var_d for x in walk(e)):
            return v != 0
    if e.get('k') == 'bin' and e['op'] in CMP_OPS:
        for (x, y, flip) in ((e['l'], e['r'], False), (e['r'], e['l'], True)):
            x0 = strip_casts(x)
            if x0.get('k') == 'ref' and x0.get('d') == var_d:
                if K == 'null':
                    if is_null_const(y):
                        return e['op'] == '=='
                    return None
                c = const_val(y)
                if c is None:
                    return None
                op = e['op']
                if flip:
                    op = {'<': '>', '>': '<', '<=': '>=', '>=': '<=', '==': '==', '!=': '!='}[op]
                return {'==': K == c, '!=': K != c, '<': K < c, '<=': K <= c, '>': K > c, '>=': K >= c}[op]
    return None


def tab17(units, R):
    """The failure result of an in-band-status function is never treated as a success: following the code under the
    hypothesis 'the call returned its failure value' reaches only failure returns (or propagates the value)."""
    n = 0
    for u, fn in all_functions(units):
        calls = [c for c in fn.calls() if callee_name(c) in SENTINELS and callee_name(c) in u.functions]
        if not calls:
            continue
        cfg = fn.cfg()
        par = fn.parents()
        for c in calls:
            cn = callee_name(c)
            K = SENTINELS[cn]
            node = node_containing(cfg, c)
            p = par.get(c['id'])
            while p is not None and p.get('k') == 'cast':
                p = par.get(p['id'])
            n += 1
            okret = lambda r: r.expr is not None and (const_val(r.expr) == 0 or is_null_const(r.expr))
            # 1. returned directly: the caller's caller deals with it
            if node.kind == 'return' and strip_casts(node.expr) is c:
                R.ob('TAB17', fn, c, 'failure result of %s is propagated' % cn, True, 'returned directly', key='result:%s:ret' % cn)
                continue
            # 2. the call is (under `!`) the branch condition
            if node.kind == 'branch' and strip_casts(node.expr) is c:
                starts = [y for (y, l) in cfg.succ[node.id] if l and l[0] == 'F']
                var_d = None
            elif p is not None and p.get('k') == 'bin' and p['op'] in ('==', '!=') and node.kind == 'branch' and strip_casts(node.expr) is p and \
                    any((const_val(o_) == 0 or is_null_const(o_)) for o_ in (p['l'], p['r']) if strip_casts(o_) is not c):
                # the call compared with its failure value in the condition itself: (f(x) == 0), (f(x) != NULL)
                starts = [y for (y, l) in cfg.succ[node.id] if l and l[0] == ('T' if p['op'] == '==' else 'F')]
                var_d = None
            elif p is not None and p.get('k') == 'bin' and p['op'] == '=' and is_ref(p['l']) and strip_casts(p['r']) is c:
                var_d = strip_casts(p['l'])['d']
                starts = [y for (y, _l) in cfg.succ[node.id]]
            elif p is not None and p.get('k') == 'call' and K == 'null':
                R.ob('TAB17', fn, c, 'pointer result of %s is handed to %s' % (cn, callee_name(p)), True,
                     'the callee receives the pointer and tests it', key='result:%s:arg' % cn)
                continue
            else:
                decl = [d for d in fn.locals() if 'init' in d and strip_casts(d['init']) is c]
                if decl:
                    var_d = decl[0]['d']
                    starts = [y for (y, _l) in cfg.succ[node.id]]
                elif node.kind == 'stmt' and strip_casts(node.expr) is c:
                    # result ignored
                    ok = K == 'null' and cn != 'ensure'
                    R.ob('TAB17', fn, c, 'result of %s is used' % cn, ok, 'value-carrying result may be ignored' if ok else
                         'the status result is dropped: a failure is treated as success', key='result:%s:ignored' % cn)
                    continue
                else:
                    R.ob('TAB17', fn, c, 'result of %s reaches a test' % cn, False,
                         'used inside %s without first being separated from the failure value' % (expr_str(p)[:40] if p else '?'),
                         key='result:%s:expr' % cn)
                    continue
            # follow the CFG under the hypothesis result == K, with constant propagation of simple locals so that
            # `status = 11; goto cleanup; ... return status;` and `return detached_item` (still NULL) are recognised
            env_at = _const_env(fn, cfg)
            fail_nonzero = fn.name in FAILURE_IS_NONZERO
            redefs = set()
            if var_d is not None:
                for a in assignments(fn):
                    if is_ref(a['l']) and strip_casts(a['l'])['d'] == var_d and strip_casts(a['r']) is not c:
                        redefs.add(node_containing(cfg, a).id)
            base_env = _env_transfer(cfg.nodes[node.id], dict(env_at.get(node.id, {})))
            seen = {}
            work = [(y, base_env) for y in starts]
            bad = None
            steps = 0
            while work and bad is None:
                x, env = work.pop()
                steps += 1
                if steps > 5000:
                    raise AnalysisBroken('TAB17: path exploration does not finish in %s' % fn.name)
                nd = cfg.nodes[x]
                if x in redefs:
                    continue
                if nd.kind == 'return':
                    v = None
                    if nd.expr is not None:
                        if const_val(nd.expr) is not None:
                            v = const_val(nd.expr)
                        elif is_null_const(nd.expr):
                            v = 0
                        elif is_ref(nd.expr):
                            d = strip_casts(nd.expr)['d']
                            if d == var_d:
                                continue    # propagates the failure value itself
                            v = env.get(d)
                    if v is not None and ((v != 0) if fail_nonzero else (v == 0)):
                        continue
                    bad = nd
                    break
                env2 = _env_transfer(nd, dict(env))
                for (y, l) in cfg.succ[x]:
                    if var_d is not None and nd.kind == 'branch' and l is not None and l[0] in ('T', 'F'):
                        t = _fold_under(nd.expr, var_d, K)
                        if t is not None and t != (l[0] == 'T'):
                            continue
                    if nd.kind == 'branch' and l is not None and l[0] in ('T', 'F'):
                        # branches on other constant-valued locals
                        feasible = True
                        for dd, cv in env2.items():
                            t = _fold_under(nd.expr, dd, cv)
                            if t is not None and t != (l[0] == 'T'):
                                feasible = False
                        if not feasible:
                            continue
                    sig = tuple(sorted(env2.items()))
                    if (y, sig) not in seen:
                        seen[(y, sig)] = True
                        work.append((y, env2))
            R.ob('TAB17', fn, c, 'a failed %s cannot lead to a successful return' % cn, bad is None,
                 'under result == %s only failure returns are reachable' % ('NULL' if K == 'null' else K) if bad is None else
                 'with %s == %s the return at line %d (%s) is reached: the failure is accepted as a value%s'
                 % (cn, 'NULL' if K == 'null' else K, bad.line, expr_str(bad.expr)[:30] if bad.expr is not None else 'void',
                    ('; ' + SENTINEL_NOTE[cn]) if cn in SENTINEL_NOTE else ''),
                 key='result:%s:%s' % (cn, 'cond' if var_d is None else 'var'))
    R.floor('TAB17', 'calls of in-band-status functions', n, 45)


# ---- C03 structure: acceptance needs a production ----------------------------------------------------------------------------

def c03_structure(units, R):
    u = units['cJSON.c']
    # 1. every `return true` of the value parsers is preceded on all paths by a store of the node type
    for name in ('parse_value', 'parse_array', 'parse_object', 'parse_string', 'parse_number'):
        fn = u.fn(name)
        cfg = fn.cfg()
        tstores = set()
        value_parsers = ('parse_value', 'parse_array', 'parse_object', 'parse_string', 'parse_number')
        for m in cfg.nodes:
            for ev in node_effects(m):
                if ev.kind == 'store' and is_mem(ev.lhs, 'type'):
                    tstores.add(m.id)
            # a call of another value parser on the way (its result is tested: TAB17): that one stored the type, which is
            # its own obligation here
            root_ = m.decl.get('init') if m.kind == 'decl' else getattr(m, 'expr', None)
            if root_ is not None and any(c_.get('k') == 'call' and callee_name(c_) in value_parsers and callee_name(c_) != name
                                         for c_ in walk(root_)):
                tstores.add(m.id)
        for r in cfg.returns():
            if r.expr is None or const_val(r.expr) in (0, None):
                continue
            ok = r.id not in cfg.reachable(cfg.entry.id, stop=tstores)
            R.ob('C03S', fn, r.stmt, '%s reports success only after it stored a node type' % name, ok,
                 'every path to this return passes a store to ->type' if ok else 'a path accepts input without producing a value',
                 key='typed-success:%s' % name)
    # 2. parse_value falls through to `return false`
    fn = u.fn('parse_value')
    cfg = fn.cfg()
    last = [n for n in cfg.returns()]
    fall = [r for r in last if r.expr is not None and const_val(r.expr) == 0]
    R.ob('C03S', fn, None, 'parse_value returns false when no production matches', bool(fall), '', key='fallthrough')
    # 3. containers: the success path needs the matching closing bracket at the cursor
    for name, closer in (('parse_array', ord(']')), ('parse_object', ord('}'))):
        fn = u.fn(name)
        cfg = fn.cfg()

        def closer_edge(nn, l, closer=closer):
            if nn.kind != 'branch' or l is None:
                return False
            p = cmp_parts(nn.expr)
            if p is None or p[2] != closer or p[1] not in ('==', '!=') or p[0].get('k') not in ('idx', 'un'):
                return False
            return (p[1] == '==') == (l[0] == 'T')
        for r in cfg.returns():
            if r.expr is None or const_val(r.expr) in (0, None):
                continue
            ok = guarded_by(cfg, r.id, closer_edge)
            R.ob('C03S', fn, r.stmt, '%s succeeds only when the cursor is at %r' % (name, chr(closer)), ok, '', key='closer:%s' % name)
        # the element loop continues only on a comma
        loops = [n for n in cfg.nodes if n.kind == 'branch' and (cmp_parts(n.expr) or (None, None, None))[2] == ord(',')]
        R.ob('C03S', fn, None, '%s continues its element loop only on a comma' % name, bool(loops), '', key='comma:%s' % name)
        if name == 'parse_object':
            colon = [n for n in cfg.nodes if n.kind == 'branch' and (cmp_parts(n.expr) or (None, None, None))[2] == ord(':')]
            # the value is parsed only after the colon comparison succeeded
            pv = [c for c in fn.calls() if callee_name(c) == 'parse_value']
            okc = bool(colon) and all(guarded_by(cfg, node_containing(cfg, c).id,
                                                 lambda nn, l: nn.kind == 'branch' and l is not None and (cmp_parts(nn.expr) or (None, None, None))[2] == ord(':')
                                                 and ((cmp_parts(nn.expr)[1] == '==') == (l[0] == 'T'))) for c in pv)
            R.ob('C03S', fn, None, 'a member value is parsed only after the colon', okc, '', key='colon')
            from ..specialize import as_written
            uw = as_written(u)          # which functions decode a string is a fact about the program as written
            producers = {'parse_string'} | _string_producers(uw)
            ps = [c for c in uw.fn(name).calls() if callee_name(c) in producers] if name in uw.functions else []
            ps = ps or [c for c in fn.calls() if callee_name(c) in producers]
            R.ob('C03S', fn, None, 'member names are parsed as strings', bool(ps), '', key='stringkey')
    R.floor('C03S', 'structure obligations', len([o for o in R.obs if o.rule == 'C03S']), 12)


# ---- ENT1: the entry point refuses a text only because its value cannot be parsed -----------------------------------------------

def _offlen_form(e):
    """Linear form {offset: a, length: b, 1: c} of an expression over B.offset / B.length and constants, or None."""
    e = strip_casts(e)
    v = const_val(e)
    if v is not None:
        return {1: v}
    if e.get('k') == 'mem' and e['f'] in ('offset', 'length'):
        return {e['f']: 1}
    if e.get('k') == 'bin' and e['op'] in ('+', '-'):
        l, r = _offlen_form(e['l']), _offlen_form(e['r'])
        if l is None or r is None:
            return None
        out = dict(l)
        for k_, v_ in r.items():
            out[k_] = out.get(k_, 0) + (v_ if e['op'] == '+' else -v_)
        return out
    return None


def ent1(units, R, fn_name='cJSON_ParseWithLengthOpts', parser='parse_value', floor=3):
    """In front of the call of the value parser, the entry point gives up only for reasons that are not about the text (a missing
    argument, no memory) or that imply that the value parser would refuse as well: nothing readable at the cursor, or a byte at
    the cursor that opens no value.  A test of its own that is weaker than that refuses texts the grammar accepts."""
    u = units['cJSON.c']
    if fn_name not in u.functions:
        raise AnalysisBroken('ENT1: anchor function %s not found' % fn_name)
    fn = u.fn(fn_name)
    cfg = fn.cfg()
    openers = set().union(*EXPECTED_FIRST_BYTES.values()) | {ord('n'), ord('t'), ord('f')}

    def roots(n):
        if n.kind == 'decl':
            return [n.decl['init']] if 'init' in n.decl else []
        return [n.expr] if getattr(n, 'expr', None) is not None else []
    pv = {n.id for n in cfg.nodes if any(c.get('k') == 'call' and callee_name(c) == parser for r_ in roots(n) for c in walk(r_))}
    if not pv:
        raise AnalysisBroken('ENT1: %s does not call %s' % (fn_name, parser))
    good = [r.id for r in cfg.returns() if r.expr is not None and not is_null_const(r.expr)]
    if not good:
        raise AnalysisBroken('ENT1: %s has no successful return' % fn_name)
    alive = set()
    for g in good:
        alive |= cfg.reachable(g, forward=False)
    pre = cfg.reachable(stop=pv) | pv
    assigns = list(assignments(fn))

    def defs_of(d):
        out = [x['init'] for x in fn.locals() if x['d'] == d and 'init' in x]
        out += [a['r'] for a in assigns if is_ref(a['l']) and strip_casts(a['l'])['d'] == d]
        return out

    def is_cursor(b):
        b = strip_casts(b)
        return b.get('k') == 'bin' and b['op'] == '+' and is_mem(b['l'], 'content') and is_mem(b['r'], 'offset')

    def call_reason(c):
        cn = callee_name(c)
        if cn == parser:
            return 'the value parser fails'
        from .bnd import RETURNS_ARG
        if cn in RETURNS_ARG:
            return '%s hands back no buffer' % cn
        rec = None
        try:
            from .bnd import _parse_buffer_record
            rec = _parse_buffer_record(u)
        except AnalysisBroken:
            pass
        if not any(rec and rec in u.ty(a['ty'])['s'] for a in c['args'] if 'ty' in a):
            return 'a call that does not look at the text yields nothing (%s)' % (cn or 'through a hook')
        return None
    n = 0
    for nd in cfg.nodes:
        if nd.id not in pre or nd.id not in alive:
            continue
        for (m, label) in cfg.succ[nd.id]:
            if m in alive:
                continue
            if label is None or label[0] not in ('T', 'F'):
                raise AnalysisBroken('ENT1: %s: %s is left for the failure exit without a test' % (fn_name, fn.where(nd.expr) if roots(nd) else '?'))
            taken = label[0] == 'T'
            c = strip_casts(label[1])
            while c.get('k') == 'un' and c['op'] == '!':
                c = strip_casts(c['e'])
                taken = not taken
            n += 1
            refs = [x for x in walk(c) if x.get('k') == 'ref' and x.get('dk') != 'fn']
            calls = [x for x in walk(c) if x.get('k') == 'call']
            what = 'before the value is parsed, %s gives up on %s %s only for a reason that makes the value unparsable too' % (
                fn_name, expr_str(c)[:60], 'true' if taken else 'false')
            key = 'refusal:%s:%s' % (expr_str(c)[:50], taken)
            if refs and all(x.get('dk') == 'param' for x in refs) and not calls and not any(x.get('k') == 'mem' for x in walk(c)):
                R.ob('ENT1', fn, label[1], what, True, 'a test of the arguments alone', key=key)
                continue
            if calls:
                why = [call_reason(x) for x in calls]
                if all(why):
                    R.ob('ENT1', fn, label[1], what, True, why[0], key=key)
                    continue
            cp = (c['l'], c['op'], c['r']) if c.get('k') == 'bin' and c['op'] in CMP_OPS else None
            subject = strip_casts(cp[0]) if cp and is_null_const(cp[2]) else (strip_casts(cp[2]) if cp and is_null_const(cp[0]) else c)
            if subject.get('k') == 'ref' and subject.get('dk') == 'local' and u.ty(subject.get('ty0', subject['ty']))['c'] == 'ptr':
                ds = [strip_casts(x) for x in defs_of(subject['d']) if not is_null_const(x)]
                if ds and all(x.get('k') == 'call' and call_reason(x) for x in ds):
                    R.ob('ENT1', fn, label[1], what, True, call_reason(ds[0]), key=key)
                    continue
            if cp and cp[1] in CMP_OPS:
                l, r = _offlen_form(cp[0]), _offlen_form(cp[2])
                if l is not None and r is not None and (set(l) | set(r)) & {'offset', 'length'}:
                    d = dict(l)
                    for k_, v_ in r.items():
                        d[k_] = d.get(k_, 0) - v_
                    op = cp[1]
                    if not taken:
                        op = {'<': '>=', '<=': '>', '>': '<=', '>=': '<', '==': '!=', '!=': '=='}[op]
                    if op in ('<', '<='):
                        d = {k_: -v_ for k_, v_ in d.items()}
                        op = {'<': '>', '<=': '>='}[op]
                    # now: d (op) 0 with op in > >= == !=
                    ok = False
                    slack = None
                    if op in ('>', '>=') and d.get('offset', 0) == 1 and d.get('length', 0) == -1:
                        slack = d.get(1, 0) - (1 if op == '>' else 0)      # offset - length + slack >= 0: up to `slack` bytes readable
                        ok = slack <= 0
                    R.ob('ENT1', fn, label[1], what, ok,
                         'holds only when nothing is readable at the cursor' if ok else
                         ('also holds with %d readable byte(s) left at the cursor: a text whose value is those bytes is refused although '
                          'the value parser would accept it' % slack if slack is not None else
                          'a comparison of the read position that does not say that nothing is left to read'), key=key)
                    continue
            admitted = set()
            known = False
            for b in range(256):
                v = _evalb(c, b, {}, u, is_cursor)
                if v is None:
                    continue
                known = True
                if bool(v) == taken:
                    admitted.add(b)
            if known:
                hit = sorted(admitted & openers)
                R.ob('ENT1', fn, label[1], what, not hit, 'the bytes refused here open no value' if not hit else
                     'refuses first bytes %s, which open a value' % ''.join(chr(b) for b in hit), key=key)
                continue
            raise AnalysisBroken('ENT1: %s: the reason %s for giving up in front of %s is not one this rule can judge' % (
                fn.where(label[1]), expr_str(c)[:60], parser))
    R.floor('ENT1', 'ways of %s to give up before or at the call of %s' % (fn_name, parser), n, floor)


# ---- C02 structure: dispatch on the first byte, members in input order -------------------------------------------------------

EXPECTED_FIRST_BYTES = {
    'parse_string': {ord('"')},
    'parse_number': {ord('-')} | set(range(ord('0'), ord('9') + 1)),
    'parse_array': {ord('[')},
    'parse_object': {ord('{')},
}


def c02_structure(units, R):
    u = units['cJSON.c']
    fn = u.fn('parse_value')
    cfg = fn.cfg()
    def is_cursor(b):
        b = strip_casts(b)
        return b.get('k') == 'bin' and b['op'] == '+' and is_mem(b['l'], 'content') and is_mem(b['r'], 'offset')
    # locals that only ever hold the buffer cursor (const unsigned char *text = buffer_at_offset(input_buffer)); a read
    # through one counts as a read at the cursor as long as no store to ->offset lies between the assignment and the read
    alias_nodes = {}
    for d in fn.locals():
        srcs = [d['init']] if 'init' in d and not is_null_const(d['init']) else []
        srcs += [a['r'] for a in assignments(fn) if is_ref(a['l']) and strip_casts(a['l'])['d'] == d['d'] and not is_null_const(a['r'])]
        if srcs and all(is_cursor(x) for x in srcs):
            defs = set()
            for n in cfg.nodes:
                if (n.kind == 'decl' and n.decl['d'] == d['d'] and 'init' in n.decl and not is_null_const(n.decl['init'])) or \
                        (n.kind == 'stmt' and strip_casts(n.expr).get('k') == 'bin' and strip_casts(n.expr)['op'] == '=' and
                         is_ref(strip_casts(n.expr)['l']) and strip_casts(strip_casts(n.expr)['l'])['d'] == d['d']):
                    defs.add(n.id)
            offset_stores = set()
            for n in cfg.nodes:
                for ev in node_effects(n):
                    if ev.kind in ('store', 'incdec') and is_mem(ev.lhs, 'offset'):
                        offset_stores.add(n.id)
            stale = set()
            for o in offset_stores:
                if any(o in cfg.reachable(df, stop=defs - {df}) for df in defs):
                    stale |= cfg.reachable(o, stop=defs)
            alias_nodes[d['d']] = stale
    cur_node = {'id': None}

    def src_ok(base):
        # the byte at the buffer cursor: (B->content + B->offset)[0], or the same through a local holding the cursor
        b = strip_casts(base)
        if is_cursor(b):
            return True
        return b.get('k') == 'ref' and b.get('d') in alias_nodes and cur_node['id'] not in alias_nodes[b['d']]
    reach = {}

    def visit(node, B, env):
        cur_node['id'] = node.id
        root = node.expr
        if root is None:
            return
        for c in walk(root):
            if c.get('k') == 'call' and callee_name(c) in EXPECTED_FIRST_BYTES:
                reach.setdefault(callee_name(c), set()).update(B)
    _byte_explore(u, fn, lambda base: src_ok(base), visit, reset_heads=False)
    for c in fn.calls():
        cn = callee_name(c)
        if cn not in EXPECTED_FIRST_BYTES:
            continue
        got = reach.get(cn, set())
        want = EXPECTED_FIRST_BYTES[cn]
        if not got:
            # the exploration never arrived at the call (a loop in front of the dispatch that it cannot get through with the byte
            # in hand): nothing was learnt about the guard
            raise AnalysisBroken('C02S: %s: the byte-wise exploration of parse_value does not reach the call of %s' % (fn.where(c), cn))
        R.ob('C02S', fn, c, '%s is entered exactly for first bytes %s' % (cn, ''.join(chr(b) for b in sorted(want))), set(got) == want,
             'guard admits %s' % (''.join(chr(b) if 32 < b < 127 else '\\x%02x' % b for b in sorted(got))[:60]), key='firstbyte:' + cn)
    missing = set(EXPECTED_FIRST_BYTES) - {callee_name(c) for c in fn.calls()}
    R.ob('C02S', fn, None, 'parse_value has a production for strings, numbers, arrays and objects', not missing, str(sorted(missing)), key='productions')
    # containers: elements are appended at the tail in input order
    for name in ('parse_array', 'parse_object'):
        f2 = u.fn(name)
        cfg2 = f2.cfg()
        from .common import assignment_pairs
        pairs = {(l, r) for (l, r, _a, _via) in assignment_pairs(u, f2)}
        # chained `current_item = head = new_item`
        def fresh_nodes(F):
            out = [d['n'] for d in F.locals() if 'init' in d and strip_casts(d['init']).get('k') == 'call' and
                   callee_name(strip_casts(d['init'])) == 'cJSON_New_Item']
            out += [strip_casts(a['l'])['n'] for a in assignments(F) if is_ref(a['l']) and strip_casts(a['r']).get('k') == 'call' and
                    callee_name(strip_casts(a['r'])) == 'cJSON_New_Item']
            return out
        news = fresh_nodes(f2)
        # the allocation (and the linking) may live in a static helper the container parser calls for each element
        for (_l, _r, _a, via) in assignment_pairs(u, f2):
            if via is not None and callee_name(via) in u.functions:
                for n_ in fresh_nodes(u.functions[callee_name(via)]):
                    if n_ not in news:
                        news.append(n_)
        if len(news) != 1:
            raise AnalysisBroken('C02S: %s does not allocate exactly one node per element' % name)
        N = news[0]
        tails = [l[:-len('->next')] for (l, r) in pairs if l.endswith('->next') and r == N]
        ok = bool(tails) and all((('%s->prev' % N, t) in pairs and (t, N) in pairs) for t in tails)
        R.ob('C02S', f2, None, '%s links each new element after the current tail and advances the tail' % name, ok,
             'tail variable(s): %s' % tails if ok else 'append idiom incomplete: %s' % sorted(p for p in pairs if N in p[0] or N in p[1])[:5],
             key='append:' + name)
        prepend = [(l, r) for (l, r) in pairs if l == '%s->next' % N]
        R.ob('C02S', f2, None, '%s never links a new element in front of the list' % name, not prepend, str(prepend), key='noprepend:' + name)
        # the list head is assigned only while it is NULL
        heads = [a for a in assignments(f2) if expr_str(strip_casts(_final_rhs(a))) == N and is_ref(a['l']) and
                 any((('%s->child' % 'item'), expr_str(strip_casts(a['l']))) == (l, r) for (l, r) in pairs)]
        for (l_, r_, a_, via) in assignment_pairs(u, f2):
            if via is None or r_ != N or ('item->child', l_) not in pairs:
                continue
            h = u.functions[callee_name(via)]
            hcfg = h.cfg()
            hnode = node_containing(hcfg, a_)
            target = expr_str(strip_casts(a_['l']))

            def head_null_h(nn, l, target=target):
                if nn.kind != 'branch' or l is None:
                    return False
                p = strip_casts(nn.expr)
                if p.get('k') == 'bin' and p['op'] in ('==', '!='):
                    other = p['l'] if is_null_const(p['r']) else (p['r'] if is_null_const(p['l']) else None)
                    if other is not None and expr_str(strip_casts(other)) == target:
                        return (p['op'] == '==') == (l[0] == 'T')
                return False
            R.ob('C02S', f2, via, '%s sets the list head only for the first element' % name, guarded_by(hcfg, hnode.id, head_null_h),
                 'inside helper %s' % h.name, key='head:' + name)
        for a in f2.nodes():
            if a.get('k') == 'bin' and a['op'] == '=' and is_ref(a['l']) and ('item->child', expr_str(strip_casts(a['l']))) in pairs \
                    and expr_str(strip_casts(_final_rhs(a))) == N:
                hd = strip_casts(a['l'])
                node = node_containing(cfg2, a)

                def head_null(nn, l, hd=hd):
                    if nn.kind != 'branch' or l is None:
                        return False
                    p = strip_casts(nn.expr)
                    if p.get('k') == 'bin' and p['op'] in ('==', '!='):
                        other = p['l'] if is_null_const(p['r']) else (p['r'] if is_null_const(p['l']) else None)
                        if other is not None and is_ref(other) and strip_casts(other)['d'] == hd['d']:
                            return (p['op'] == '==') == (l[0] == 'T')
                    return False
                R.ob('C02S', f2, a, '%s sets the list head only for the first element' % name, guarded_by(cfg2, node.id, head_null), '',
                     key='head:' + name)
    # object members: the key is the string just parsed
    from ..specialize import as_written
    u3 = as_written(u)                  # who decodes strings and where the key comes from: read off the program as written
    f3 = u3.fn('parse_object') if 'parse_object' in u3.functions else u.fn('parse_object')
    pairs = {(expr_str(strip_casts(a['l'])), expr_str(strip_casts(_final_rhs(a))) if not is_null_const(a['r']) else 'NULL')
             for a in assignments(f3) if a['op'] == '='}
    swap = any(l.endswith('->string') and r == l[:-len('string')] + 'valuestring' for (l, r) in pairs) and \
        any(l.endswith('->valuestring') and r == 'NULL' for (l, r) in pairs)
    how = 'moved out of valuestring'
    if not swap:
        # or: the name is decoded by the function parse_string itself gets its text from, and stored as the key directly
        producers = _string_producers(u3)
        defs3 = {}
        for d_ in f3.locals():
            if 'init' in d_:
                defs3.setdefault(d_['d'], []).append(d_['init'])
        for a in assignments(f3):
            if is_ref(a['l']):
                defs3.setdefault(strip_casts(a['l'])['d'], []).append(a['r'] if a['op'] == '=' else None)
        for a in assignments(f3):
            l = strip_casts(a['l'])
            if l.get('k') == 'mem' and l['f'] == 'string' and a['op'] == '=':
                r = strip_casts(a['r'])
                if r.get('k') == 'ref':
                    vals = [v for v in defs3.get(r['d'], []) if v is None or not (is_null_const(v) or strip_casts(v).get('null'))]
                    if vals and all(v is not None and strip_casts(v).get('k') == 'call' and callee_name(strip_casts(v)) in producers for v in vals):
                        swap = True
                        how = 'decoded by %s' % sorted(producers)[0]
                elif r.get('k') == 'call' and callee_name(r) in producers:
                    swap = True
                    how = 'decoded by %s' % callee_name(r)
    R.ob('C02S', f3, None, 'member key is the parsed string', swap, how if swap else '', key='keyswap')
    R.floor('C02S', 'structure obligations', len([o for o in R.obs if o.rule == 'C02S']), 10)


def _string_producers(u):
    """Functions whose result parse_string stores as the decoded text (parse_string is then a thin wrapper around them): they are
    the string production just as much as parse_string is."""
    out = set()
    ps = u.functions.get('parse_string')
    if ps is None or ps.body is None:
        return out
    single = {}
    for d_ in ps.locals():
        if 'init' in d_:
            single.setdefault(d_['d'], []).append(d_['init'])
    for a in assignments(ps):
        if is_ref(a['l']):
            single.setdefault(strip_casts(a['l'])['d'], []).append(a['r'] if a['op'] == '=' else None)
    for a in assignments(ps):
        l = strip_casts(a['l'])
        if l.get('k') == 'mem' and l['f'] == 'valuestring' and a['op'] == '=':
            r = strip_casts(a['r'])
            if r.get('k') == 'ref':
                vals = [v for v in single.get(r['d'], []) if v is None or not (is_null_const(v) or strip_casts(v).get('null'))]
                if len(vals) == 1 and vals[0] is not None:
                    r = strip_casts(vals[0])
            if r.get('k') == 'call' and callee_name(r) in u.functions:
                out.add(callee_name(r))
    return out


def _final_rhs(a):
    r = a['r']
    r0 = strip_casts(r)
    while r0.get('k') == 'bin' and r0['op'] == '=':
        r0 = strip_casts(r0['r'])
    return r0


# ---- TAB21 hex digit table --------------------------------------------------------------------------------------------------

_const_tables = {}


def _const_table(u, ref):
    """values of a const array of the unit (file scope or static local) with a constant initialiser, else None"""
    key = (id(u), ref.get('d'))
    if key in _const_tables:
        return _const_tables[key]
    out = None
    for g in list(u.globals) + [d for (_f, d) in u.static_locals()]:
        if g.get('d') != ref.get('d'):
            continue
        t = u.ty(g['ty'])
        if t['c'] == 'array' and 'init' in g and (g.get('const') or t.get('const')):
            ini = strip_casts(g['init'])
            if ini.get('k') == 'str':
                out = list(ini['bytes']) + [0]
            elif ini.get('k') == 'initlist' and all(const_val(i) is not None for i in ini['inits']):
                out = [const_val(i) for i in ini['inits']]
                if t.get('count') and len(out) < t['count']:
                    out += [0] * (t['count'] - len(out))
    _const_tables[key] = out
    return out


def _evalb(e, b, env, u, src_ok):
    """Value of a pure integer expression as a function of the current input byte b (None = not evaluable)."""
    e0 = e
    e = strip_casts(e)
    v = const_val(e0)
    if v is None:
        v = const_val(e)
    if v is not None:
        return v
    k = e.get('k')
    val = None
    if k == 'idx' and strip_casts(e['b']).get('k') == 'ref' and strip_casts(e['b']).get('dk') not in ('local', 'param') and \
            _const_table(u, strip_casts(e['b'])) is not None:
        # a lookup in a constant table of the unit, indexed by something that depends on the byte
        tb = _const_table(u, strip_casts(e['b']))
        i_ = _evalb(e['i'], b, env, u, src_ok)
        if i_ is None or not (0 <= i_ < len(tb)):
            return None
        val = tb[i_]
    elif k in ('idx', 'un') and access(e) is not None and src_ok(access(e)[0]):
        val = b
        # the byte as the type it is read through sees it: a plain (signed) char turns 0x80..0xFF into negative values
        t_own = u.ty(e.get('ty0', e.get('ty'))) if ('ty0' in e or 'ty' in e) else {}
        if t_own.get('c') == 'int' and t_own.get('bits') == 8 and not t_own.get('unsigned') and val >= 128:
            val -= 256
    elif k == 'ref':
        if e['d'] in env:
            val = _evalb(env[e['d']], b, env, u, src_ok)
        else:
            return None
    elif k == 'bin' and e['op'] in ('+', '-', '|', '&', '^', '<<', '>>', '*'):
        l, r = _evalb(e['l'], b, env, u, src_ok), _evalb(e['r'], b, env, u, src_ok)
        if l is None or r is None:
            return None
        op = e['op']
        val = {'+': l + r, '-': l - r, '|': l | r, '&': l & r, '^': l ^ r, '<<': l << (r & 31), '>>': l >> (r & 31), '*': l * r}[op]
    elif k == 'bin' and e['op'] in CMP_OPS:
        l, r = _evalb(e['l'], b, env, u, src_ok), _evalb(e['r'], b, env, u, src_ok)
        if l is None or r is None:
            return None
        val = int({'==': l == r, '!=': l != r, '<': l < r, '<=': l <= r, '>': l > r, '>=': l >= r}[e['op']])
    elif k == 'un' and e['op'] in ('-', '~', '!'):
        x = _evalb(e['e'], b, env, u, src_ok)
        if x is None:
            return None
        val = {'-': -x, '~': ~x, '!': int(not x)}[e['op']]
    else:
        return None
    # the result of an arithmetic operator has the operator's own type: unsigned arithmetic wraps around
    # ((raw - '0') <= 9u is false for every byte below '0')
    if k in ('bin', 'un') and e.get('op') not in CMP_OPS and e.get('op') != '!' and ('ty0' in e or 'ty' in e):
        t0 = u.ty(e.get('ty0', e.get('ty')))
        if t0.get('c') == 'int' and t0.get('bits') and t0.get('unsigned'):
            val &= (1 << t0['bits']) - 1
    # explicit casts on the way out
    c = e0
    chain = []
    while c.get('k') == 'cast':
        chain.append(c)
        c = c['e']
    for cst in reversed(chain):
        t = u.ty(cst['ty'])
        if t['c'] == 'int' and t.get('bits'):
            bits = t['bits']
            val &= (1 << bits) - 1
            if not t.get('unsigned') and val >= (1 << (bits - 1)):
                val -= (1 << bits)
    return val


def _byte_explore(u, fn, src_ok, visit, reset_heads=True):
    """Follow every path of fn with (set of values of the current input byte, expressions held by locals); at loop heads
    the byte is forgotten.  visit(node, B, env) is called for every node reached."""
    cfg = fn.cfg()
    ALL = frozenset(range(256))
    heads = {n.id for n in cfg.nodes if n.kind == 'nop' and n.name == 'loop-head'} if reset_heads else set()
    seen = set()
    work = [(cfg.entry.id, ALL, ())]
    steps = 0
    while work:
        nid, B, envt = work.pop()
        steps += 1
        if steps > 50000:
            raise AnalysisBroken('byte exploration of %s does not finish' % fn.name)
        node = cfg.nodes[nid]
        if nid in heads:
            B, envt = ALL, ()
        sig = (nid, B, tuple(k for k, _v in envt))
        if sig in seen:
            continue
        seen.add(sig)
        env = dict(envt)
        visit(node, B, env)
        if node.kind == 'decl' and 'init' in node.decl:
            env[node.decl['d']] = node.decl['init']
        elif node.kind == 'stmt':
            e = node.expr
            if e.get('k') == 'bin' and e['op'] in ASSIGN_OPS and is_ref(e['l']):
                d = strip_casts(e['l'])['d']
                if e['op'] == '=':
                    env[d] = e['r']
                else:
                    env.pop(d, None)
        elif node.kind == 'return':
            continue
        envt2 = tuple(sorted(env.items(), key=lambda kv: kv[0]))
        for (y, label) in cfg.succ[nid]:
            B2 = B
            if label is not None and label[0] in ('T', 'F') and node.kind == 'branch':
                keep = set()
                dep = True
                for b in B:
                    v = _evalb(label[1], b, env, u, src_ok)
                    if v is None:
                        dep = False
                        break
                    if bool(v) == (label[0] == 'T'):
                        keep.add(b)
                if dep:
                    if not keep:
                        continue
                    B2 = frozenset(keep)
            elif label is not None and label[0] in ('case', 'default') and node.kind == 'switch':
                vals = [label[2]] if label[0] == 'case' else list(label[2])
                keep = set()
                dep = True
                for b in B:
                    v = _evalb(label[1], b, env, u, src_ok)
                    if v is None:
                        dep = False
                        break
                    if (v in vals) == (label[0] == 'case'):
                        keep.add(b)
                if dep:
                    if not keep:
                        continue
                    B2 = frozenset(keep)
            work.append((y, B2, envt2))


def tab21(units, R):
    """parse_hex4 accepts exactly the 22 hexadecimal digit bytes, each with its value: the set of byte values that do not
    reach the failure return, and what each contributes, are computed over all 256 byte values from the conditions and
    expressions of the loop body."""
    from ..dataflow import solve
    u = units['cJSON.c']
    fn = u.fn('parse_hex4')
    cfg = fn.cfg()
    inp = fn.params[0]['d']

    def src_ok(base):
        b = strip_casts(base)
        if b.get('k') == 'un' and b['op'] in ('post++', 'post--'):
            b = strip_casts(b['e'])
        return b.get('k') == 'ref' and u.ty(b['ty'])['c'] == 'ptr' and 'char' in u.ty(b['ty'])['s']
    ALL = frozenset(range(256))
    heads = {n.id for n in cfg.nodes if n.kind == 'nop' and n.name == 'loop-head'}
    contrib = []     # (byte set, value expression, env)
    rejected = set()
    acc_var = None
    rets = [r for r in cfg.returns() if r.expr is not None and is_ref(r.expr)]
    if rets:
        acc_var = strip_casts(rets[0].expr)['d']
    # a conversion left to the C library: strtoul(copy, &end, 16) on a terminated copy of the four bytes.  What the library takes is
    # its documented syntax (white space, a sign, 0x, then digits of the base); the bytes that get that far are those the
    # function's own tests in front of the call let through
    conv = [c for c in fn.calls() if callee_name(c) in ('strtoul', 'strtol', 'strtoull', 'strtoll')]
    conv_after = set()
    conv_set = None
    conv_base = None
    if conv:
        if len(conv) != 1 or len(conv[0]['args']) != 3:
            raise AnalysisBroken('TAB21: parse_hex4 converts through %d library calls' % len(conv))
        cnode = cfg.node_of_expr(conv[0]['id'])
        if cnode is None:
            raise AnalysisBroken('TAB21: conversion call not placed in the CFG')
        conv_after = cfg.reachable(cnode.id) - {cnode.id}
        if cnode.id in conv_after:
            raise AnalysisBroken('TAB21: the conversion call of parse_hex4 sits in a loop')
        conv_base = const_val(conv[0]['args'][2])
        src = strip_casts(conv[0]['args'][0])
        if not (src.get('k') == 'ref' and u.ty(src.get('ty0', src['ty']))['c'] == 'array'):
            raise AnalysisBroken('TAB21: the conversion of parse_hex4 does not read a local copy')
        fills = [c for c in fn.calls() if callee_name(c) in ('memcpy', '__builtin_memcpy', '__builtin___memcpy_chk') and
                 strip_casts(c['args'][0]).get('d') == src['d'] and strip_casts(c['args'][1]).get('d') == inp and const_val(c['args'][2]) == 4]
        if not fills:
            raise AnalysisBroken('TAB21: how the copy handed to %s is filled from the input is not modelled' % callee_name(conv[0]))
        endp = strip_casts(conv[0]['args'][1])
        endvar = strip_casts(endp['e']).get('d') if endp.get('k') == 'un' and endp['op'] == '&' else None
        end_checked = endvar is not None and any(
            n.kind == 'branch' and n.id in conv_after and any(z.get('k') == 'ref' and z.get('d') == endvar for z in walk(n.expr))
            for n in cfg.nodes)
        if end_checked:
            digits_of_base = set(b'0123456789abcdefABCDEF') if conv_base == 16 else set(b'0123456789')
            conv_set = digits_of_base | {9, 10, 11, 12, 13, 32, ord('+'), ord('-')} | ({ord('x'), ord('X')} if conv_base in (16, 0) else set())
        else:
            conv_set = set(range(256))       # whatever follows the first digit is simply left unconverted
    # path exploration: every path of the (acyclic) loop body is followed separately with the set of byte values that take
    # it and the expressions held by the locals on it; at the loop head everything is forgotten (one byte per iteration)
    seen = set()
    work = [(cfg.entry.id, ALL, ())]
    steps = 0
    while work:
        nid, B, envt = work.pop()
        steps += 1
        if steps > 20000:
            raise AnalysisBroken('TAB21: exploration of parse_hex4 does not finish')
        node = cfg.nodes[nid]
        if nid in heads:
            B, envt = ALL, ()
        sig = (nid, B, tuple(k for k, _v in envt))
        if sig in seen:
            continue
        seen.add(sig)
        env = dict(envt)
        envx = {k: v for k, v in env.items()}
        if node.kind == 'decl' and 'init' in node.decl:
            env[node.decl['d']] = node.decl['init']
        elif node.kind == 'stmt':
            e = node.expr
            if e.get('k') == 'bin' and e['op'] in ASSIGN_OPS and is_ref(e['l']):
                d = strip_casts(e['l'])['d']
                if d == acc_var:
                    if e['op'] == '+=':
                        contrib.append((B, e['r'], dict(env)))
                    elif e['op'] == '=' and strip_casts(e['r']).get('k') == 'bin' and strip_casts(e['r'])['op'] in ('+', '|'):
                        r = strip_casts(e['r'])
                        for (x, y) in ((r['l'], r['r']), (r['r'], r['l'])):
                            mentions_acc = any(z.get('k') == 'ref' and z.get('d') == acc_var for z in walk(x))
                            free_of_acc = not any(z.get('k') == 'ref' and z.get('d') == acc_var for z in walk(y))
                            if mentions_acc and free_of_acc:
                                contrib.append((B, y, dict(env)))
                elif e['op'] == '=':
                    env[d] = e['r']
                else:
                    env.pop(d, None)
        elif node.kind == 'return':
            if node.expr is not None and const_val(node.expr) == 0 and nid not in conv_after:
                rejected.update(B)
            continue
        envt2 = tuple(sorted(env.items(), key=lambda kv: kv[0]))
        for (y, label) in cfg.succ[nid]:
            B2 = B
            if label is not None and label[0] in ('T', 'F') and node.kind == 'branch':
                keep = set()
                dep = True
                for b in B:
                    v = _evalb(label[1], b, env, u, src_ok)
                    if v is None:
                        dep = False
                        break
                    if bool(v) == (label[0] == 'T'):
                        keep.add(b)
                if dep:
                    if not keep:
                        continue
                    B2 = frozenset(keep)
            elif label is not None and label[0] in ('case', 'default') and node.kind == 'switch':
                vals = [label[2]] if label[0] == 'case' else list(label[2])
                keep = set()
                dep = True
                for b in B:
                    v = _evalb(label[1], b, env, u, src_ok)
                    if v is None:
                        dep = False
                        break
                    if (v in vals) == (label[0] == 'case'):
                        keep.add(b)
                if dep:
                    if not keep:
                        continue
                    B2 = frozenset(keep)
            work.append((y, B2, envt2))
    accepted = set(range(256)) - rejected
    if conv_set is not None:
        accepted &= conv_set
    want = set(b'0123456789abcdefABCDEF')
    R.ob('TAB21', fn, None, 'parse_hex4 accepts exactly the bytes 0-9 a-f A-F', accepted == want,
         '22 bytes accepted' if accepted == want else 'also accepts %s / refuses %s%s' % (
             sorted(accepted - want)[:10], sorted(want - accepted)[:10],
             ' (%s takes white space, a sign and a prefix as well; the tests in front of it have to keep them out)' % callee_name(conv[0])
             if conv else ''), key='hexdigits')
    if conv:
        R.ob('TAB21', fn, conv[0], 'each hexadecimal digit contributes its value', conv_base == 16,
             'converted by %s with base %s' % (callee_name(conv[0]), conv_base), key='hexvalues')
        R.floor('TAB21', 'digit contributions found', 1, 1)
        return
    # values
    bad = []
    seen = set()
    for (B, e, env) in contrib:
        for b in sorted(B & want):
            v = _evalb(e, b, env, u, src_ok)
            if v is None:
                raise AnalysisBroken('TAB21: digit value expression %s is not evaluable' % expr_str(e)[:40])
            seen.add(b)
            if v != int(chr(b), 16):
                bad.append((chr(b), v))
    R.ob('TAB21', fn, None, 'each hexadecimal digit contributes its value', not bad and seen >= want,
         'all 22 digits evaluated' if not bad and seen >= want else 'wrong values %s, unevaluated %s' % (bad[:6], sorted(want - seen)[:6]),
         key='hexvalues')
    R.floor('TAB21', 'digit contributions found', len(contrib), 1)


# ---- NUM2: the number token ends where the conversion stopped ---------------------------------------------------------------

def num2(units, R):
    """parse_number converts a copy of the input with strtod; the part of the input that belongs to the number is what strtod
    consumed, so every store that advances the buffer offset adds exactly `end - start` of that conversion (directly or through a
    local defined once as that difference).  Advancing by anything else - the length of the run of number characters that was
    copied, a constant - makes trailing garbage part of the number ("12-34" accepted as 12) or cuts the number short."""
    u = units['cJSON.c']
    fn = u.fn('parse_number')
    convs = [c for c in fn.calls() if callee_name(c) in ('strtod', 'strtold', 'strtof') and len(c['args']) >= 2]
    if len(convs) != 1:
        raise AnalysisBroken('NUM2: parse_number does not convert with exactly one strtod call (%d found)' % len(convs))
    c = convs[0]
    start = expr_str(strip_casts(c['args'][0]))
    e = strip_casts(c['args'][1])
    if not (e.get('k') == 'un' and e['op'] == '&' and is_ref(e['e'])):
        raise AnalysisBroken('NUM2: the end pointer of strtod is not the address of a local')
    endv = strip_casts(e['e'])

    def is_consumed(x, depth=0):
        x = strip_casts(x)
        if x.get('k') == 'bin' and x['op'] == '-':
            l, r = strip_casts(x['l']), strip_casts(x['r'])
            return l.get('k') == 'ref' and l['d'] == endv['d'] and expr_str(r) == start
        if x.get('k') == 'ref' and x.get('dk') == 'local' and depth < 3:
            defs = [d['init'] for d in fn.locals() if d['d'] == x['d'] and 'init' in d and const_val(d['init']) != 0]
            defs += [a['r'] for a in assignments(fn) if is_ref(a['l']) and strip_casts(a['l'])['d'] == x['d']]
            return len(defs) == 1 and is_consumed(defs[0], depth + 1)
        return False
    cfg = fn.cfg()

    def reaching(var_d, use):
        defs = {}
        for nd in cfg.nodes:
            root = nd.decl.get('init') if nd.kind == 'decl' else getattr(nd, 'expr', None)
            if nd.kind == 'decl' and nd.decl['d'] == var_d and 'init' in nd.decl:
                defs[nd.id] = nd.decl['init']
            if root is None:
                continue
            for x in walk(root):
                if x.get('k') == 'bin' and x['op'] in ASSIGN_OPS and is_ref(x['l']) and strip_casts(x['l'])['d'] == var_d:
                    defs[nd.id] = x['r'] if x['op'] == '=' else x
                elif x.get('k') == 'un' and x['op'] in ('post++', 'pre++', 'post--', 'pre--') and is_ref(x['e']) and strip_casts(x['e'])['d'] == var_d:
                    defs[nd.id] = x
        un = cfg.node_of_expr(use['id'])
        return [e_ for (i_, e_) in defs.items() if un is not None and un.id in cfg.reachable(i_, stop=set(defs) - {i_})]
    n = 0
    for a in assignments(fn):
        if not is_mem(a['l'], 'offset'):
            continue
        n += 1
        ok = a['op'] == '+=' and is_consumed(a['r'])
        r0 = strip_casts(a['r'])
        if not ok and a['op'] == '+=' and r0.get('k') == 'ref' and r0.get('dk') == 'local':
            # a local that holds different things at different times (the scan index, then the advance): what counts is what it
            # holds where the offset is advanced
            rd = reaching(r0['d'], a)
            other = [x for x in rd if not is_consumed(x)]
            second = [x for x in other if strip_casts(x).get('k') == 'call' and callee_name(strip_casts(x)) in u.functions]
            if rd and second and len(second) == len(other):
                raise AnalysisBroken('NUM2: %s: the advance of the offset is, on some paths, the result of %s: a second conversion '
                                     'next to strtod, whose count of converted bytes this rule does not model' % (
                                         fn.where(a), callee_name(strip_casts(second[0]))))
            ok = bool(rd) and not other
        R.ob('NUM2', fn, a, 'the offset advances by what strtod consumed', ok,
             '%s - %s' % (endv['n'], start) if ok else 'advances by %s, not by %s - %s: bytes strtod did not convert become part of the number '
             '(or converted ones are left behind)' % (expr_str(strip_casts(a['r']))[:40], endv['n'], start), key='advance')
    R.floor('NUM2', 'offset stores in parse_number', n, 1)


# ---- NUM5: digits accumulated in a double stay exact -----------------------------------------------------------------------

def num5(units, R, unit_names=('cJSON.c',), floor=0):
    """A hand-written decimal conversion `v = v * 10 + digit` in a double is exact only while v stays below 2^53, that is for at
    most 15 digits (10^15 < 2^53 < 10^16); with more digits the accumulation rounds more than once and differs from the correctly
    rounded value strtod gives - the text a double is printed as (17 digits) then no longer reads back as the same double.  For
    every such accumulation inside a loop, the number of turns that reach it is bounded from the loop's own tests."""
    n = 0
    for un in unit_names:
        u = units[un]
        for fn in u.function_list:
            accs = []
            for a in assignments(fn):
                if a['op'] != '=' or not is_ref(a['l']) or u.ty(strip_casts(a['l']).get('ty0', strip_casts(a['l'])['ty']))['c'] != 'float':
                    continue
                vd = strip_casts(a['l'])['d']
                r = strip_casts(a['r'])
                if r.get('k') != 'bin' or r['op'] != '+':
                    continue
                for side in (r['l'], r['r']):
                    m = strip_casts(side)
                    if m.get('k') == 'bin' and m['op'] == '*':
                        fs = [strip_casts(m['l']), strip_casts(m['r'])]
                        if any(f.get('k') == 'ref' and f.get('d') == vd for f in fs) and any(
                                (const_val(f) == 10) or (f.get('k') == 'float' and float(f.get('fval', 0)) == 10.0) for f in fs):
                            accs.append(a)
            if not accs:
                continue
            cfg = fn.cfg()
            heads = [x.id for x in cfg.nodes if x.kind == 'nop' and x.name == 'loop-head']
            for a in accs:
                an = cfg.node_of_expr(a['id'])
                cyc = None
                for h in heads:
                    fw = cfg.reachable(h)
                    bw = cfg.reachable(h, forward=False)
                    if an.id in fw and an.id in bw:
                        c_ = fw & bw
                        if cyc is None or len(c_) < len(cyc[1]):
                            cyc = (h, c_)
                if cyc is None:
                    continue
                n += 1
                head, body = cyc
                what = 'the digits accumulated into %s by %s stay exactly representable' % (strip_casts(a['l'])['n'], expr_str(a)[:50])
                # per-turn change of every integer local inside the cycle
                step = {}
                for nid in body:
                    nd = cfg.nodes[nid]
                    root = nd.decl.get('init') if nd.kind == 'decl' else getattr(nd, 'expr', None)
                    if root is None:
                        continue
                    for x in walk(root):
                        if x.get('k') == 'un' and x['op'] in ('post++', 'pre++') and is_ref(x['e']):
                            d_ = strip_casts(x['e'])['d']
                            step[d_] = None if d_ in step else 1
                        elif (x.get('k') == 'un' and x['op'] in ('post--', 'pre--') and is_ref(x['e'])) or \
                                (x.get('k') == 'bin' and x['op'] in ASSIGN_OPS and is_ref(x['l'])):
                            d_ = strip_casts(x['e'] if x.get('k') == 'un' else x['l'])['d']
                            if x is not a:
                                step[d_] = None

                def lin(e):
                    e = strip_casts(e)
                    v = const_val(e)
                    if v is not None:
                        return {1: v}
                    if e.get('k') == 'ref' and e.get('dk') in ('local', 'param'):
                        return {e['d']: 1}
                    if e.get('k') == 'bin' and e['op'] in ('+', '-'):
                        l, r_ = lin(e['l']), lin(e['r'])
                        if l is None or r_ is None:
                            return None
                        out = dict(l)
                        for k_, v_ in r_.items():
                            out[k_] = out.get(k_, 0) + (v_ if e['op'] == '+' else -v_)
                        return out
                    return None

                def entry_value(d_):
                    # the value a local has when the loop is entered: its only definition outside the cycle that reaches the head
                    defs = {}
                    for nd in cfg.nodes:
                        if nd.id in body:
                            continue
                        root = nd.decl.get('init') if nd.kind == 'decl' else getattr(nd, 'expr', None)
                        if nd.kind == 'decl' and nd.decl['d'] == d_ and 'init' in nd.decl:
                            defs[nd.id] = nd.decl['init']
                        if root is None:
                            continue
                        for x in walk(root):
                            if x.get('k') == 'bin' and x['op'] in ASSIGN_OPS and is_ref(x['l']) and strip_casts(x['l'])['d'] == d_:
                                defs[nd.id] = x['r'] if x['op'] == '=' else None
                            elif x.get('k') == 'un' and x['op'] in ('post++', 'pre++', 'post--', 'pre--') and is_ref(x['e']) and \
                                    strip_casts(x['e'])['d'] == d_:
                                defs[nd.id] = None
                    rd = [e_ for (i_, e_) in defs.items() if head in cfg.reachable(i_, stop=(set(defs) - {i_}) | (body - {head}))]
                    return rd[0] if len(rd) == 1 else None
                best = None
                onpath = cfg.reachable(head, stop={an.id}) & cfg.reachable(an.id, forward=False, stop={head}) | {head}
                for nid in onpath & body:
                    nd = cfg.nodes[nid]
                    if nd.kind != 'branch':
                        continue
                    c = strip_casts(nd.expr)
                    if c.get('k') != 'bin' or c['op'] not in ('<', '<=', '>', '>='):
                        continue
                    l, r_ = lin(c['l']), lin(c['r'])
                    if l is None or r_ is None:
                        continue
                    d = dict(l)
                    for k_, v_ in r_.items():
                        d[k_] = d.get(k_, 0) - v_
                    for (y, label) in cfg.succ[nid]:
                        if label is None or label[0] not in ('T', 'F'):
                            continue
                        if an.id not in cfg.reachable(y, stop={head}) and y != an.id:
                            continue
                        op = c['op'] if label[0] == 'T' else {'<': '>=', '<=': '>', '>': '<=', '>=': '<'}[c['op']]
                        dd = dict(d)
                        if op in ('>', '>='):
                            dd = {k_: -v_ for k_, v_ in dd.items()}
                            op = {'>': '<', '>=': '<='}[op]
                        # dd < 0 (or <= 0) on the way to the accumulation: E = dd - const;  E <= K - 1
                        K = -dd.get(1, 0) + (0 if op == '<' else 1)
                        E = {k_: v_ for k_, v_ in dd.items() if k_ != 1 and v_ != 0}
                        if not E:
                            continue
                        delta = 0
                        okd = True
                        for k_, v_ in E.items():
                            st_ = step.get(k_, 0)
                            if st_ is None:
                                okd = False
                            else:
                                delta += v_ * st_
                        if not okd or delta != 1:
                            continue
                        tot = {}
                        for k_, v_ in E.items():
                            ev = entry_value(k_) if k_ in step else None
                            fv = lin(ev) if (k_ in step and ev is not None) else ({k_: 1} if k_ not in step else None)
                            if fv is None:
                                tot = None
                                break
                            for k2, v2 in fv.items():
                                tot[k2] = tot.get(k2, 0) + v_ * v2
                        if tot is None or any(v_ != 0 for k_, v_ in tot.items() if k_ != 1):
                            continue
                        c0 = tot.get(1, 0)
                        digits = K - c0
                        if best is None or digits < best[0]:
                            best = (digits, nd)
                if best is None:
                    raise AnalysisBroken('NUM5: %s: no test of the loop bounds how many digits are accumulated into a double' % fn.where(a))
                digits = best[0]
                ok = digits <= 15
                R.ob('NUM5', fn, a, what, ok, 'at most %d digits (the test at %s), 10^%d %s 2^53' % (
                    digits, fn.where(best[1].expr), digits, '<' if ok else '>') + ('' if ok else
                    ': from the 16th digit on every step rounds, and the sum is no longer the correctly rounded value of the text'), key='acc:%s' % fn.name)
    R.floor('NUM5', 'decimal accumulations in a double inside a loop', n, floor)


# ---- NUM6: a number that was converted is refused only if it is not finite ------------------------------------------------------

def num6(units, R, fn_name='parse_number'):
    """Behind the strtod call of parse_number the parse fails only (a) because nothing was converted (the end pointer did not move),
    or (b) under a test that the result is not a finite number (> DBL_MAX, < -DBL_MAX, isinf, isnan).  Every finite double is printed
    as a literal that has to parse again (C04), and every literal of the grammar denotes a number (C02): a refusal for another
    reason - errno == ERANGE is also raised when the result is a subnormal number - loses texts the printer itself produces."""
    u = units['cJSON.c']
    fn = u.fn(fn_name)
    convs = [c for c in fn.calls() if callee_name(c) in ('strtod', 'strtold', 'strtof') and len(c['args']) >= 2]
    if len(convs) != 1:
        raise AnalysisBroken('NUM6: parse_number does not convert with exactly one strtod call (%d found)' % len(convs))
    c = convs[0]
    cfg = fn.cfg()
    cn = cfg.node_of_expr(c['id'])
    par = fn.parents()
    p = par.get(c['id'])
    while p is not None and p.get('k') == 'cast':
        p = par.get(p['id'])
    res = None
    if p is not None and p.get('k') == 'bin' and p['op'] == '=' and is_ref(p['l']):
        res = strip_casts(p['l'])['d']
    else:
        for d_ in fn.locals():
            if 'init' in d_ and any(x is c for x in walk(d_['init'])):
                res = d_['d']
    e = strip_casts(c['args'][1])
    endv = strip_casts(e['e']).get('d') if (e.get('k') == 'un' and e['op'] == '&') else None
    if cn is None or res is None or endv is None:
        raise AnalysisBroken('NUM6: the result or the end pointer of strtod in parse_number is not a local')
    after = cfg.reachable(cn.id)
    good = [r.id for r in cfg.returns() if r.expr is not None and const_val(r.expr) not in (0, None)]
    alive = set()
    for g in good:
        alive |= cfg.reachable(g, forward=False)

    def about_end(x, depth=0):
        if any(y.get('k') == 'ref' and y.get('d') == endv for y in walk(x)):
            return True
        # a flag that only ever holds a comparison of the end pointer (converted = (start != end); ... if (!converted))
        for y in walk(x):
            if y.get('k') == 'ref' and y.get('dk') == 'local' and depth < 2:
                ds_ = [d_['init'] for d_ in fn.locals() if d_['d'] == y['d'] and 'init' in d_ and const_val(d_['init']) is None]
                ds_ += [a_['r'] for a_ in assignments(fn) if is_ref(a_['l']) and strip_casts(a_['l'])['d'] == y['d'] and a_['op'] == '=' and
                        const_val(a_['r']) is None]
                # (only a comparison counts: the conversion call itself mentions the end pointer too, and its result is the number)
                if ds_ and all(strip_casts(d_).get('k') in ('bin', 'un') and not any(z.get('k') == 'call' for z in walk(d_)) and
                               about_end(d_, depth + 1) for d_ in ds_):
                    return True
        return False

    def not_finite(x, truth):
        """is the edge (x evaluated to truth) one on which the result is known not to be a finite number"""
        x = strip_casts(x)
        if x.get('k') == 'call' and any(t in (callee_name(x) or '') for t in ('isinf', 'isnan', 'finite')) and \
                any(y.get('k') == 'ref' and y.get('d') == res for y in walk(x)):
            return truth != ('finite' in (callee_name(x) or ''))
        if x.get('k') == 'bin' and x['op'] in ('>', '<', '>=', '<='):
            l, r = strip_casts(x['l']), strip_casts(x['r'])
            for (v, k_, op) in ((l, r, x['op']), (r, l, {'>': '<', '<': '>', '>=': '<=', '<=': '>='}[x['op']])):
                if v.get('k') == 'ref' and v.get('d') == res:
                    neg = False
                    while k_.get('k') == 'un' and k_['op'] == '-':
                        neg = not neg
                        k_ = strip_casts(k_['e'])
                    val = float(k_['fval']) if k_.get('k') == 'float' else None
                    if val is not None and val >= 1.7976931348623157e308:
                        # number > DBL_MAX (true) / number < -DBL_MAX (true)
                        if truth and ((op == '>' and not neg) or (op == '<' and neg)):
                            return True
        if x.get('k') == 'bin' and x['op'] == '!=' and truth:
            l, r = strip_casts(x['l']), strip_casts(x['r'])
            if l.get('k') == 'ref' and r.get('k') == 'ref' and l.get('d') == r.get('d') == res:
                return True         # number != number: NaN
        return False
    n = 0
    for nd in cfg.nodes:
        if nd.id not in after and nd.id != cn.id:
            continue
        if nd.id not in alive:
            continue
        for (m, label) in cfg.succ[nd.id]:
            if m in alive:
                continue
            if label is None or label[0] not in ('T', 'F'):
                continue
            n += 1
            x = label[1]
            truth = label[0] == 'T'
            ok = about_end(x) or not_finite(x, truth) or \
                guarded_by(cfg, nd.id, lambda nn, l: nn.kind == 'branch' and l is not None and l[0] in ('T', 'F') and nn.id in after and
                           not_finite(l[1], l[0] == 'T'))
            R.ob('NUM6', fn, x, 'a number that strtod converted is refused only if it is not finite', ok,
                 'the end pointer did not move' if about_end(x) else ('under a test that the result is not finite' if ok else
                 'refused when %s is %s, which says nothing about the result being finite (ERANGE is raised for a subnormal result as well): '
                 'a literal the printer produces no longer parses' % (expr_str(strip_casts(x))[:40], 'true' if truth else 'false')),
                 key='refusal:%s' % expr_str(strip_casts(x))[:40])
    R.floor('NUM6', 'ways of parse_number to fail behind the conversion', n, 1)


# ---- NUM3: a hoisted scan bound covers all of the remaining input --------------------------------------------------------

def num3(units, R):
    """Where parse_number bounds its scan of the input by a variable (`for (i = 0; i < limit; i++)`) instead of testing the buffer
    for every byte, each value assigned to that variable from the remaining input must be all of it: `length - offset`, not
    `length - offset - 1` (the last readable byte would never be looked at, so a number that ends the buffer loses its last digit).
    Constants (the size of the temporary buffer) and copies of such bounds are fine."""
    u = units['cJSON.c']
    fn = u.fn('parse_number')
    cfg = fn.cfg()
    # variables that bound a loop which reads the input
    bounds = {}
    for b in cfg.nodes:
        if b.kind != 'branch':
            continue
        e = strip_casts(b.expr)
        if e.get('k') == 'bin' and e['op'] in ('<', '!=', '<=') and is_ref(e['l']) and is_ref(e['r']):
            v = strip_casts(e['r'])
            if v.get('dk') == 'local' and u.ty(v.get('ty0', v['ty']))['c'] == 'int':
                # is the branch the condition of a loop (it can reach itself) whose body reads through a pointer / the cursor?
                if b.id in cfg.reachable(b.id):
                    bounds[v['d']] = (v['n'], e['op'])
    n = 0
    for d, (name, op) in bounds.items():
        srcs = [(x, x['init']) for x in fn.locals() if x['d'] == d and 'init' in x]
        srcs += [(a, a['r']) for a in assignments(fn) if is_ref(a['l']) and strip_casts(a['l'])['d'] == d and a['op'] == '=']
        for (node, rhs) in srcs:
            r = strip_casts(rhs)
            c = 0
            while r.get('k') == 'bin' and r['op'] in ('-', '+') and const_val(r['r']) is not None:
                c += const_val(r['r']) if r['op'] == '-' else -const_val(r['r'])
                r = strip_casts(r['l'])
            if r.get('k') == 'bin' and r['op'] == '-' and is_mem(r['l'], 'length') and is_mem(r['r'], 'offset'):
                n += 1
                short = c + (1 if op == '<=' else 0)
                R.ob('NUM3', fn, rhs, 'the scan bound %s taken from the remaining input covers all of it' % name, short <= 0,
                     'length - offset' if short <= 0 else
                     '%s = length - offset - %d used as `i %s %s`: the last %d readable byte(s) are never examined, a number at the very '
                     'end of an exact-length buffer loses them' % (name, c, op, name, short), key='bound:%s' % name)
    R.ob('NUM3', None, None, 'hoisted scan bounds of parse_number examined', True, '%d taken from the remaining input' % n,
         key='census', file='cJSON.c', line=0)



def tab22(units, R, fn_name='buffer_skip_whitespace'):
    """buffer_skip_whitespace steps over a byte only when its value is at most 0x20: the set of values of the byte under the
    cursor with which an advance of the read position is reached (within one iteration of the skipping loop, conditions
    evaluated for all 256 values as the type they are read through sees them) contains nothing above 32.  What follows the
    top-level value "only whitespace" (C10) and what separates tokens (C02/C03) is decided here."""
    u = units['cJSON.c']
    fn = u.fn(fn_name)

    def src_ok(base):
        b = strip_casts(base)
        return u.ty(b.get('ty0', b.get('ty')))['c'] == 'ptr' if ('ty' in b or 'ty0' in b) else False
    skipped = set()
    nadv = [0]
    # integer locals that hold the offset of the buffer (size_t offset = buffer->offset;) are read positions as well
    offset_copies = set()
    for d_ in fn.locals():
        if 'init' in d_ and is_mem(strip_casts(d_['init']), 'offset'):
            offset_copies.add(d_['d'])
    for a_ in assignments(fn):
        if is_ref(a_['l']) and a_['op'] == '=' and is_mem(strip_casts(a_['r']), 'offset'):
            offset_copies.add(strip_casts(a_['l'])['d'])

    def position(l):
        return is_mem(l, 'offset') or (l.get('k') == 'ref' and (u.ty(l.get('ty0', l['ty']))['c'] == 'ptr' or l.get('d') in offset_copies))

    def visit(node, B, env):
        for ev in node_effects(node):
            adv = False
            if ev.kind == 'incdec' and ev.delta > 0:
                adv = position(strip_casts(ev.lhs))
            elif ev.kind == 'store' and ev.node['op'] == '+=' and (const_val(ev.node['r']) or 0) > 0:
                adv = position(strip_casts(ev.lhs))
            if adv and node.line and _in_loop(fn, node):
                nadv[0] += 1
                skipped.update(B)
    _byte_explore(u, fn, src_ok, visit)
    if not nadv[0]:
        raise AnalysisBroken('TAB22: no advance of the read position found in a loop of %s' % fn_name)
    extra = sorted(v for v in skipped if v > 32)
    R.ob('TAB22', fn, None, '%s steps over bytes up to 0x20 only' % fn_name, not extra,
         'values skipped: 0..%d' % max(skipped) if not extra else
         'also steps over the byte values %s%s: a value followed by such a byte passes for "followed by whitespace only"' % (
             extra[:6], ' ...' if len(extra) > 6 else ''), key='ws-set')


def _in_loop(fn, node):
    cfg = fn.cfg()
    return node.id in cfg.reachable(node.id)
