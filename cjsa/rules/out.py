"""OUT rules: output accounting (DESIGN.md section 3).  OUT5 sequential writers leave no gap,
OUT6 in-place lag, OUT7 path-buffer sizing.  (OUT1-OUT4: see outbuf.py)"""
from ..facts import (AnalysisBroken, walk, strip_casts, expr_str, is_null_const, const_val, ASSIGN_OPS, callee_name)
from ..dataflow import solve, node_effects, access, effects
from .common import all_functions, assignments, is_ref, find_function, guarded_by


# ---- format strings ---------------------------------------------------------------------------------

def parse_format(bs):
    """list of ('lit', n) | ('conv', spec_char, flags_width_precision_text, length_modifier)"""
    s = bytes(bs).decode('latin1')
    out = []
    i = 0
    lit = 0
    while i < len(s):
        if s[i] != '%':
            lit += 1
            i += 1
            continue
        if i + 1 < len(s) and s[i + 1] == '%':
            lit += 1
            i += 2
            continue
        if lit:
            out.append(('lit', lit))
            lit = 0
        j = i + 1
        while j < len(s) and s[j] in '-+ #0':
            j += 1
        while j < len(s) and (s[j].isdigit() or s[j] == '*'):
            j += 1
        if j < len(s) and s[j] == '.':
            j += 1
            while j < len(s) and (s[j].isdigit() or s[j] == '*'):
                j += 1
        mod = ''
        while j < len(s) and s[j] in 'hlLqjzt':
            mod += s[j]
            j += 1
        if j >= len(s):
            raise AnalysisBroken('bad format string %r' % s)
        spec = s[i + 1:j - len(mod)]
        if '*' in spec:
            # a width / precision taken from the argument list: one pseudo conversion per '*' (it consumes an int argument and prints
            # nothing) in front of the conversion, which learns the value through the shared cell when conv_max_len sees the argument
            cell = {}
            before, _dot, after = spec.partition('.')
            if '*' in before:
                out.append(('conv', '*', cell, 'w'))
            if '*' in after:
                out.append(('conv', '*', cell, 'p'))
            out.append(('conv', s[j], spec, mod, cell))
        else:
            out.append(('conv', s[j], spec, mod))
        i = j + 1
    if lit:
        out.append(('lit', lit))
    return out


def _width(spec):
    w = ''
    for ch in spec.lstrip('-+ #0'):
        if ch.isdigit():
            w += ch
        else:
            break
    return int(w) if w else 0


def conv_min_len(conv):
    if conv[1] == '*':
        return 0
    _k, ch, spec, _mod = conv[:4]
    if '*' in spec:
        return 0
    if ch in 'diuxXo':
        return max(1, _width(spec))
    if ch == 'c':
        return max(1, _width(spec))
    return _width(spec)


def conv_max_len(conv, u=None, arg=None):
    """Upper bound of the bytes one conversion can produce (None = unbounded / depends on a string)."""
    if conv[1] == '*':
        conv[2][conv[3]] = const_val(arg) if arg is not None else None
        return 0
    _k, ch, spec, mod = conv[:4]
    cell = conv[4] if len(conv) > 4 else {}
    before, _dot, after = spec.partition('.')
    if '*' in before:
        if cell.get('w') is None:
            return None
        spec = before.replace('*', str(abs(cell['w']))) + _dot + after
        before = spec.partition('.')[0]
    w = _width(spec)
    prec = None
    if '.' in spec:
        p = spec.split('.', 1)[1]
        if '*' in p:
            if cell.get('p') is None:
                return None
            prec = cell['p'] if cell['p'] >= 0 else None
        else:
            prec = int(p) if p.isdigit() else None
    if ch in 'di':
        bits = 64 if 'l' in mod or 'j' in mod or 'z' in mod else 32
        if arg is not None and const_val(arg) is not None:
            return max(w, len(str(const_val(arg))))
        return max(w, 20 if bits == 64 else 11)
    if ch == 'u':
        bits = 64 if 'l' in mod or 'j' in mod or 'z' in mod else 32
        return max(w, 20 if bits == 64 else 10)
    if ch in 'xX':
        bits = 64 if 'l' in mod else 32
        if arg is not None and u is not None:
            t = u.ty(strip_casts(arg).get('ty0', strip_casts(arg)['ty']))
            ta = u.ty(arg['ty'])
            # an unsigned char promoted to int prints at most 2 hex digits
            inner = strip_casts(arg)
            ti = u.ty(inner.get('ty0', inner['ty']))
            if ti.get('bits') == 8 and ti.get('unsigned'):
                return max(w, 2)
        return max(w, 16 if bits == 64 else 8)
    if ch == 'c':
        return max(w, 1)
    if ch in 'gG':
        # %1.<p>g of a double: sign + p significant digits + '.' + e-XXX (exponent up to 3 digits) = p + 7
        p = prec if prec is not None else 6
        return max(w, p + 7)
    if ch == 's':
        return None
    return None


# ---- OUT5 ---------------------------------------------------------------------------------------------

def _cursor_key(e):
    return expr_str(strip_casts(e))


def _is_char_ptr(u, e, need_mutable=True):
    t = u.ty(e['ty'])
    if t['c'] != 'ptr':
        return False
    s = t['s']
    if 'char' not in s:
        return False
    if need_mutable and t.get('pointee_const'):
        return False
    return s.count('*') == 1


def _index_parts(idx):
    """(counter decl, counter name, constant) of an index expression `i`, `i + c`, `i++`; None otherwise"""
    if isinstance(idx, int):
        return None
    x = strip_casts(idx)
    c = 0
    if x.get('k') == 'un' and x.get('op') in ('post++', 'post--', 'pre++', 'pre--'):
        x = strip_casts(x['e'])
    while x.get('k') == 'bin' and x['op'] in ('+', '-') and const_val(x['r']) is not None:
        c += const_val(x['r']) if x['op'] == '+' else -const_val(x['r'])
        x = strip_casts(x['l'])
    if x.get('k') == 'ref' and x.get('dk') == 'local':
        return (x['d'], x['n'], c)
    return None


def _advances_and_stores(u, fn):
    """advances of write cursors and stores through them.  A base pointer indexed by a counter (`dst[w + 1] = c; w += 2;`) is a
    write cursor too: key 'dst[w]', advanced by the steps of the counter."""
    adv = {}
    sto = {}
    cfg = fn.cfg()
    counters = {}       # counter decl -> set of stream keys
    for n in cfg.nodes:
        for ev in node_effects(n):
            if ev.kind == 'store':
                acc = access(ev.lhs)
                ip = _index_parts(acc[1]) if acc is not None else None
                if ip is not None and _is_char_ptr(u, acc[0]):
                    key = '%s[%s]' % (_cursor_key(acc[0]), ip[1])
                    counters.setdefault(ip[0], set()).add(key)
                    sto.setdefault(key, []).append(ev)
    for n in cfg.nodes:
        for ev in node_effects(n):
            if ev.kind == 'incdec' and _is_char_ptr(u, ev.lhs, need_mutable=False):
                adv.setdefault(_cursor_key(ev.lhs), []).append(ev)
            elif ev.kind == 'incdec' and strip_casts(ev.lhs).get('k') == 'ref' and strip_casts(ev.lhs).get('d') in counters:
                for key in counters[strip_casts(ev.lhs)['d']]:
                    adv.setdefault(key, []).append(ev)
            elif ev.kind == 'store':
                if ev.node['op'] in ('+=', '-=') and _is_char_ptr(u, ev.lhs, need_mutable=False):
                    adv.setdefault(_cursor_key(ev.lhs), []).append(ev)
                if ev.node['op'] in ('+=', '-=') and strip_casts(ev.lhs).get('k') == 'ref' and strip_casts(ev.lhs).get('d') in counters:
                    for key in counters[strip_casts(ev.lhs)['d']]:
                        adv.setdefault(key, []).append(ev)
                acc = access(ev.lhs)
                if acc is not None and _is_char_ptr(u, acc[0]) and _index_parts(acc[1]) is None:
                    sto.setdefault(_cursor_key(acc[0]), []).append(ev)
    _advances_and_stores.counters = counters
    return adv, sto


def out5(units, R, only=None):
    """Every advance of a write cursor by k is preceded, since the previous advance, by stores covering
    indices 0..k-1 (no byte of the output is left unwritten)."""
    nfn = 0
    nadv = 0
    for u, fn in all_functions(units):
        if only and fn.name not in only:
            continue
        adv, sto = _advances_and_stores(u, fn)
        counters = dict(_advances_and_stores.counters)
        cursors = [k for k in adv if k in sto]
        if not cursors:
            continue
        cfg = fn.cfg()
        # an index that only measures (length counts what is read, then B[length] = 0 terminates a block filled by memcpy) is not
        # a write cursor: a counter-indexed stream is one whose stores and whose counter steps lie on a common cycle
        def _on_cycle(k_):
            if '[' not in k_:
                return True
            snodes = {cfg.node_of_expr(ev.node['id']).id for ev in sto[k_] if cfg.node_of_expr(ev.node['id']) is not None}
            anodes = {cfg.node_of_expr(ev.node['id']).id for ev in adv[k_] if cfg.node_of_expr(ev.node['id']) is not None}
            for sn in snodes:
                fwd = cfg.reachable(sn)
                if any(an in fwd and sn in cfg.reachable(an) for an in anodes):
                    return True
            return False
        cursors = [k for k in cursors if _on_cycle(k)]
        if not cursors:
            continue
        nfn += 1
        cs = set(cursors)
        obligations = {}   # event id -> (ok, detail, node)

        def streams_of_counter(lhs):
            t = strip_casts(lhs)
            if t.get('k') == 'ref' and t.get('d') in counters:
                return [k for k in counters[t['d']] if k in cs]
            return []

        def stream_store(lhs):
            acc = access(lhs)
            ip = _index_parts(acc[1]) if acc is not None else None
            if ip is not None:
                key = '%s[%s]' % (_cursor_key(acc[0]), ip[1])
                if key in cs:
                    return key, ip[2]
            return None

        def transfer(node, st, record=False):
            st = dict(st)
            for ev in node_effects(node):
                if ev.kind == 'store' and streams_of_counter(ev.lhs):
                    op = ev.node['op']
                    k = const_val(ev.node['r'])
                    for key in streams_of_counter(ev.lhs):
                        if op == '+=' and k is not None and k > 0:
                            need = set(range(k))
                            have = st.get(key, frozenset())
                            if record:
                                obligations[(ev.node['id'], key)] = (need <= have, 'indices %s written since the last advance' % sorted(have),
                                                                     ev.node, key, k)
                            st[key] = frozenset(i - k for i in have if i >= k)
                        else:
                            st[key] = frozenset()      # the counter is set afresh (w = 0) or moved in another way
                    continue
                if ev.kind == 'incdec' and streams_of_counter(ev.lhs):
                    for key in streams_of_counter(ev.lhs):
                        if ev.delta > 0:
                            have = st.get(key, frozenset())
                            if record:
                                obligations[(ev.node['id'], key)] = (0 in have, 'indices %s written since the last advance' % sorted(have),
                                                                     ev.node, key, 1)
                            st[key] = frozenset(i - 1 for i in have if i >= 1)
                        else:
                            st[key] = frozenset()
                    continue
                if ev.kind == 'store' and stream_store(ev.lhs) is not None and ev.node['op'] == '=':
                    key, off = stream_store(ev.lhs)
                    if off >= 0:
                        st[key] = st.get(key, frozenset()) | {off}
                    continue
                if ev.kind == 'store':
                    op = ev.node['op']
                    key = _cursor_key(ev.lhs)
                    if key in cs and op == '=':
                        st[key] = frozenset()
                        continue
                    if key in cs and op in ('+=', '-='):
                        k = const_val(ev.node['r'])
                        if op == '+=' and k is not None and k > 0:
                            need = set(range(k))
                            have = st.get(key, frozenset())
                            if record:
                                obligations[ev.node['id']] = (need <= have,
                                                              'indices %s written since the last advance' % sorted(have),
                                                              ev.node, key, k)
                            st[key] = frozenset(i - k for i in have if i >= k)
                        elif op == '+=' and k is None:
                            if record:
                                obligations[ev.node['id']] = (None, 'variable-length advance', ev.node, key, None)
                            st[key] = frozenset()
                        else:
                            st[key] = frozenset()
                        continue
                    acc = access(ev.lhs)
                    if acc is not None:
                        bk = _cursor_key(acc[0])
                        if bk in cs and isinstance(acc[1], int) and acc[1] >= 0:
                            st[bk] = st.get(bk, frozenset()) | {acc[1]}
                elif ev.kind == 'incdec':
                    key = _cursor_key(ev.lhs)
                    if key in cs:
                        if ev.delta > 0:
                            have = st.get(key, frozenset())
                            if record:
                                obligations[ev.node['id']] = (0 in have,
                                                              'indices %s written since the last advance' % sorted(have),
                                                              ev.node, key, 1)
                            st[key] = frozenset(i - 1 for i in have if i >= 1)
                        else:
                            st[key] = frozenset()
                elif ev.kind == 'call':
                    cn = callee_name(ev.node)
                    args = ev.node['args']
                    if cn in ('sprintf', 'strcpy', 'memcpy', 'memset') and args:
                        key = _cursor_key(args[0])
                        if key in cs:
                            nbytes = 0
                            if cn == 'sprintf' and len(args) > 1 and strip_casts(args[1]).get('k') == 'str':
                                for piece in parse_format(strip_casts(args[1])['bytes']):
                                    nbytes += piece[1] if piece[0] == 'lit' else conv_min_len(piece)
                                nbytes += 1
                            elif cn == 'strcpy' and strip_casts(args[1]).get('k') == 'str':
                                nbytes = len(strip_casts(args[1])['bytes']) + 1
                            elif cn in ('memcpy', 'memset') and const_val(args[2]) is not None:
                                nbytes = const_val(args[2])
                            st[key] = st.get(key, frozenset()) | frozenset(range(nbytes))
                    else:
                        for a in args:
                            a0 = strip_casts(a)
                            if a0.get('k') == 'un' and a0['op'] == '&' and _cursor_key(a0['e']) in cs:
                                st[_cursor_key(a0['e'])] = frozenset()
                            # a `char **` parameter whose target is one of our cursors (`*output`)
                            for key in cs:
                                if key.startswith('*') and _cursor_key(a0) == key[1:]:
                                    st[key] = frozenset()
            return st

        def join(a, b):
            keys = set(a) | set(b)
            return {k: a.get(k, frozenset()) & b.get(k, frozenset()) for k in keys}

        init = {k: frozenset() for k in cs}
        states = solve(cfg, init, lambda n, s: transfer(n, s), lambda n, l, s: s, join)
        for n in cfg.nodes:
            if n.id in states:
                transfer(n, states[n.id], record=True)
        for (ok, detail, node, key, k) in obligations.values():
            nadv += 1
            if ok is None:
                R.ob('OUT5', fn, node, 'advance of %s by a computed amount' % key, True,
                     'listed exception: variable-length UTF-8 emission, bytes written by an indexed loop', key='adv:%s:var' % key)
            else:
                R.ob('OUT5', fn, node, 'advance of write cursor %s by %d leaves no gap' % (key, k), ok,
                     detail if ok else 'advance over unwritten byte(s): ' + detail, key='adv:%s:%s' % (key, expr_str(node)))
    if not only:
        R.floor('OUT5', 'functions with a sequential write cursor', nfn, 9)
        R.floor('OUT5', 'write-cursor advances', nadv, 25)


# ---- OUT6 in-place lag ----------------------------------------------------------------------------------

def _inplace_pairs(u, fn):
    """(write_cursor_key, read_cursor_key) pairs: a local char* initialised from a char* parameter, or two
    `char **` parameters of which one is stored through."""
    adv, sto = _advances_and_stores(u, fn)
    pairs = []
    # origin[c]: the char* parameter a cursor is (only ever) pointed at; the parameter itself is its own origin
    origin = {}
    for p in fn.params:
        if _is_char_ptr(u, {'k': 'ref', 'ty': p['ty'], 'n': p['n'], 'd': p['d']}, need_mutable=False):
            origin[p['n']] = p['n']
    srcs = {}
    for d in fn.locals():
        if 'init' in d and not is_null_const(d['init']):
            srcs.setdefault(d['n'], []).append(strip_casts(d['init']))
    for a in assignments(fn):
        if is_ref(a['l']) and strip_casts(a['l']).get('dk') in ('local', 'param'):
            n = strip_casts(a['l'])['n']
            if a['op'] == '=' and not is_null_const(a['r']):
                srcs.setdefault(n, []).append(strip_casts(a['r']))
            elif a['op'] == '=' and n in origin:
                pass
    for n, rs in srcs.items():
        if n in origin:
            del origin[n]        # a parameter that is re-pointed is no origin
    for n, rs in srcs.items():
        ps = {r['n'] for r in rs if r.get('k') == 'ref' and r.get('dk') == 'param' and r['n'] in origin}
        if len(ps) == 1 and all(r.get('k') == 'ref' and r.get('dk') == 'param' for r in rs):
            origin[n] = next(iter(ps))
    for w in sorted(origin):
        for r in sorted(origin):
            if w != r and origin[w] == origin[r] and w in adv and r in adv and w in sto and r not in sto:
                pairs.append((w, r, 'local'))
    pp = [p['n'] for p in fn.params if u.ty(p['ty'])['s'].count('*') == 2 and 'char' in u.ty(p['ty'])['s']]
    if len(pp) == 2:
        keys = ['*' + p for p in pp]
        ws = [k for k in keys if k in sto and k in adv]
        rs = [k for k in keys if k not in sto and k in adv]
        if len(ws) == 1 and len(rs) == 1:
            pairs.append((ws[0], rs[0], 'params'))
    return pairs


def _only_advances(u, fn, pname):
    """Callee summary: on every path *pname ends at or after where it started (rules/curdiff.py)."""
    from .curdiff import moves_forward
    return moves_forward(u, fn, pname, 0)


INF = 1 << 20


def _origin_of(u, fn, w, r):
    """The parameter both cursors of a 'local' in-place pair are pointed at."""
    for c in (w, r):
        if any(p['n'] == c for p in fn.params):
            return c
    for d in fn.locals():
        if d['n'] in (w, r) and 'init' in d and strip_casts(d['init']).get('dk') == 'param':
            return strip_casts(d['init'])['n']
    for a in assignments(fn):
        if a['op'] == '=' and is_ref(a['l']) and strip_casts(a['l'])['n'] in (w, r) and strip_casts(a['r']).get('dk') == 'param':
            return strip_casts(a['r'])['n']
    return None


def _moved_cursors(node):
    out = set()
    for ev in node_effects(node):
        if ev.kind == 'incdec':
            out.add(_cursor_key(ev.lhs))
        elif ev.kind == 'store' and ev.node['op'] in ('+=', '-=', '='):
            out.add(_cursor_key(ev.lhs))
    return out


def _out6_indexed(unit, fn, summ, R):
    """In-place transformers written with counters: one base pointer read at base[r + c] and written at base[w + c'] with two
    different counters.  A store is behind the reader when c' <= r - w, the difference bound between the two counters."""
    from .curdiff import CursorDiffs, NEG
    reads, writes = {}, {}
    cfg = fn.cfg()
    for n in cfg.nodes:
        for ev in node_effects(n):
            if ev.kind == 'load':
                acc = access(ev.node)
                ip = _index_parts(acc[1]) if acc is not None else None
                if ip is not None and _is_char_ptr(unit, acc[0], need_mutable=False):
                    reads.setdefault(_cursor_key(acc[0]), set()).add(ip[0])
            elif ev.kind == 'store':
                acc = access(ev.lhs)
                ip = _index_parts(acc[1]) if acc is not None else None
                if ip is not None and _is_char_ptr(unit, acc[0]):
                    writes.setdefault(_cursor_key(acc[0]), set()).add(ip[0])
    pairs = {b: (reads[b], writes[b]) for b in writes if b in reads and (reads[b] - writes[b])}
    if not pairs:
        return 0
    cd = CursorDiffs(unit, fn, summ)
    states = cd.run()
    for n in cfg.nodes:
        D0 = states.get(n.id)
        if D0 is None:
            continue

        def on_event(ev, D, n=n):
            if ev.kind != 'store':
                return
            acc = access(ev.lhs)
            ip = _index_parts(acc[1]) if acc is not None else None
            if ip is None or _cursor_key(acc[0]) not in pairs:
                return
            rd, wr = pairs[_cursor_key(acc[0])]
            ok, why = True, ''
            for r in sorted(rd - {ip[0]}):
                lag = cd.get(D, 'iv:%d' % r, 'iv:%d' % ip[0])
                if lag > NEG and ip[2] <= lag:
                    why = 'index %s%+d with the read counter at least %d ahead' % (ip[1], ip[2], lag)
                    continue
                if lag == NEG:
                    # counters that come into the function from outside (parameters, or loaded through pointer parameters): how far
                    # apart they are is the callers' invariant, which this rule keeps for cursors handed in as pointers only
                    def from_outside(d_):
                        if any(p_['d'] == d_ for p_ in fn.params):
                            return True
                        ds_ = [x_['init'] for x_ in fn.locals() if x_['d'] == d_ and 'init' in x_]
                        ds_ += [a_['r'] for a_ in fn.nodes() if a_.get('k') == 'bin' and a_.get('op') == '=' and
                                strip_casts(a_['l']).get('k') == 'ref' and strip_casts(a_['l'])['d'] == d_]
                        return any(strip_casts(x_).get('k') == 'un' and strip_casts(x_).get('op') == '*' and
                                   strip_casts(strip_casts(x_)['e']).get('dk') == 'param' for x_ in ds_)
                    if from_outside(r) and from_outside(ip[0]):
                        raise AnalysisBroken('OUT6: %s: the read and write positions of %s come into the function as numbers (%s); '
                                             'the distance between them is an invariant of the callers that this rule does not follow'
                                             % (fn.where(ev.node), fn.name, ip[1]))
                ok = False
                why = 'store at %s[%s%+d] while the distance of the read counter to %s is %s: it may land beyond the byte being read' % (
                    _cursor_key(acc[0]), ip[1], ip[2], ip[1], lag if lag > NEG else 'unknown')
                break
            R.ob('OUT6', fn, ev.node, 'in-place store %s stays behind the reader' % expr_str(ev.node)[:60], ok, why,
                 key='store:' + expr_str(ev.node)[:60])
        cd.transfer(n, D0, on_event=on_event)
    return 1


def out6(units, R, unit_names=('cJSON.c', 'cJSON_Utils.c')):
    """In-place transformers: the write cursor never overtakes a read cursor that is still in use, so every store lands on
    a byte the reader has already passed (or is reading in the same statement).  Difference bounds between all character
    cursors of the function (rules/curdiff.py) make this independent of whether the function works on its parameters
    directly or on local copies that it stores back."""
    from .curdiff import CursorDiffs, summaries_of, NEG
    nfn = 0
    for unit in [units[un_] for un_ in unit_names]:
        summ = summaries_of(unit)
        for fn in unit.function_list:
            nfn += _out6_indexed(unit, fn, summ, R)
            cd0 = CursorDiffs(unit, fn, summ)
            if len(cd0.keys) < 2:
                continue
            W, Rd = cd0.roles()
            if not W or not Rd:
                continue
            if not any(n_.kind == 'nop' and n_.name == 'loop-head' for n_ in fn.cfg().nodes):
                # no loop: nothing is transformed progressively here; a single store at a place found in the string (the split at
                # the last '/') cannot overtake a reader.  What the callees do with the cursors is judged in the callees
                continue
            # in place = a written-through cursor and a read-through cursor are pointed at the same string
            assume = dict(summ.get(fn.name, {}).get('assume', {})) if fn.name in summ else {}
            cd = CursorDiffs(unit, fn, summ, assume=assume)
            states = cd.run()
            live = cd.liveness()
            cd.roles()
            cls = cd.same_string()
            # the caller of a two-cursor transformer hands it two cursors into one string (checked at the call sites)
            for (x, y) in assume:
                cls = {k: (cls[x[1:]] if c == cls[y[1:]] else c) for k, c in cls.items()}
            related = any(cls[a] == cls[b] for a in Rd for b in W)
            if not related:
                continue
            nfn += 1
            obs = {}
            for n in cd.cfg.nodes:
                D0 = states.get(n.id)
                if D0 is None:
                    continue

                def on_event(ev, D, n=n):
                    if ev.kind == 'call' and callee_name(ev.node) in summ:
                        # an in-place callee assumes its reader is not behind its writer
                        cs = summ[callee_name(ev.node)]
                        hand = {}
                        for ai, a in enumerate(ev.node['args']):
                            a0 = strip_casts(a)
                            k = cd.key(a0['e']) if (a0.get('k') == 'un' and a0['op'] == '&') else (
                                '*' + a0['n'] if a0.get('k') == 'ref' and a0.get('n') in cd.pp else None)
                            if k and ai < len(cs['params']):
                                hand['@*' + cs['params'][ai]] = k
                        for (x, y), need in cs.get('assume', {}).items():
                            if x in hand and y in hand:
                                have = cd.get(D, hand[x], hand[y])
                                obs[('call', ev.node['id'])] = (have >= need, 'callee %s assumes lag >= %d, caller has %s' % (
                                    callee_name(ev.node), need, have if have > NEG else 'unknown'), ev.node)
                        return
                    if ev.kind == 'call' and callee_name(ev.node) in ('memmove', 'memcpy') and len(ev.node['args']) == 3:
                        # a block move inside one string: memmove copes with overlap and only needs the destination not to be ahead
                        # of the source; memcpy needs the two blocks apart, which a lag that depends on the input never guarantees
                        bw, br = cd.norm(ev.node['args'][0]), cd.norm(ev.node['args'][1])
                        if bw and br and bw[0] in W and bw[1] != 'nonneg' and br[1] != 'nonneg' and cls.get(bw[0]) == cls.get(br[0]):
                            lag = cd.get(D, br[0], bw[0])
                            lag = lag + br[1] - bw[1] if lag > NEG else NEG
                            if callee_name(ev.node) == 'memmove':
                                obs[ev.node['id']] = (lag >= 0, 'moves the block down by %s byte(s) (memmove: overlap allowed)' % lag if lag >= 0 else
                                                      'the destination is not shown to be at or before the source (lag %s)' % (lag if lag > NEG else 'unknown'),
                                                      ev.node)
                            else:
                                n_ = const_val(ev.node['args'][2])
                                okc = lag > NEG and n_ is not None and lag >= n_
                                obs[ev.node['id']] = (okc, 'the blocks are %s bytes apart' % lag if okc else
                                                      'memcpy between two positions of one string that are %s apart: the blocks overlap whenever '
                                                      'the copy is longer than that (undefined behaviour; memmove is the call for this)'
                                                      % ('at least %d byte(s)' % lag if lag > NEG else 'an unknown distance'), ev.node)
                        return
                    if ev.kind != 'store':
                        return
                    acc = access(ev.lhs)
                    if acc is None:
                        return
                    wb = cd.norm(acc[0])
                    if not wb or wb[0] not in W or wb[1] == 'nonneg':
                        return
                    w = wb[0]
                    i = acc[1]
                    if not isinstance(i, int):
                        # w[v + c1] = r[v + c2] with the same unchanged counter v on both sides: the store lands c1 - c2 bytes from
                        # the byte being read, plus the distance between the two bases
                        def var_const(ix):
                            ix = strip_casts(ix)
                            c_ = 0
                            while ix.get('k') == 'bin' and ix['op'] in ('+', '-') and const_val(ix['r']) is not None:
                                c_ += const_val(ix['r']) if ix['op'] == '+' else -const_val(ix['r'])
                                ix = strip_casts(ix['l'])
                            return (ix['d'], c_) if ix.get('k') == 'ref' and ix.get('dk') in ('local', 'param') else None
                        wi = var_const(i)
                        racc = access(strip_casts(ev.rhs)) if (ev.rhs is not None and strip_casts(ev.rhs).get('k') in ('idx', 'un')) else None
                        ri = var_const(racc[1]) if (racc is not None and not isinstance(racc[1], int)) else None
                        rb = cd.norm(racc[0]) if racc is not None else None
                        if wi and ri and wi[0] == ri[0] and rb and rb[1] != 'nonneg' and wb[1] != 'nonneg' and cd.get(D, rb[0], w) > NEG and \
                                wi[1] + wb[1] <= ri[1] + rb[1] + cd.get(D, rb[0], w):
                            obs[ev.node['id']] = (True, 'copies %s[v%+d] to %s[v%+d] with the same counter: not beyond the byte being read (lag %d)'
                                                  % (rb[0], ri[1], w, wi[1], cd.get(D, rb[0], w)), ev.node)
                            return
                        obs[ev.node['id']] = (False, 'store at a computed index of the in-place write cursor', ev.node)
                        return
                    i = i + wb[1]
                    readers = [a for a in Rd if a != w and (a in live[n.id]) and cls[a] == cls[w]]
                    ok, why = True, 'no reader of the same string is still in use'
                    for a in sorted(readers):
                        L = cd.get(D, a, w)
                        if i <= L:
                            why = 'index %d <= lag %d behind %s: byte already passed by the reader' % (i, L, a)
                            continue
                        racc = None
                        if ev.rhs is not None and strip_casts(ev.rhs).get('k') in ('idx', 'un'):
                            racc = access(strip_casts(ev.rhs))
                        rb = cd.norm(racc[0]) if racc is not None else None
                        if rb and rb[1] != 'nonneg' and isinstance(racc[1], int) and cd.get(D, rb[0], w) > NEG and \
                                i <= racc[1] + rb[1] + cd.get(D, rb[0], w) and \
                                (rb[0] == a or (cd.get(D, rb[0], a) >= 0 and cd.get(D, a, rb[0]) >= 0)):
                            why = 'copies %s[%d], itself in bounds, to an index not beyond it (lag %d)' % (rb[0], racc[1], cd.get(D, rb[0], w))
                            continue
                        ok = False
                        why = 'store at %s[%d] with lag %s behind %s may land beyond the byte being read' % (
                            w, i, L if L > NEG else 'unknown', a)
                        break
                    obs[ev.node['id']] = (ok, why, ev.node)
                cd.transfer(n, D0, on_event=on_event)
            if fn.name in summ and summ[fn.name].get('assume'):
                for (x, y), need in summ[fn.name]['assume'].items():
                    net = summ[fn.name]['D'].get((x[1:], y[1:]), NEG)
                    R.ob('OUT6', fn, None, 'net lag of %s over one call is >= 0' % fn.name, net >= 0,
                         'minimum over all paths: %s' % (net if net > NEG else 'unbounded below'), key='netlag')
            for (ok, why, node) in obs.values():
                R.ob('OUT6', fn, node, 'in-place store %s stays behind the reader' % expr_str(node)[:60], ok, why,
                     key='store:' + expr_str(node)[:60])
    R.floor('OUT6', 'in-place transformers', nfn, 3 if len(unit_names) > 1 else 1)


# ---- OUT7 path-buffer sizing ------------------------------------------------------------------------------

def _lin_add(a, b, sign=1):
    c = a[0] + sign * b[0]
    t = dict(a[1])
    for k, v in b[1].items():
        t[k] = t.get(k, 0) + sign * v
    return (c, {k: v for k, v in t.items() if v != 0})


_UNIT = None


def _lin(e, env):
    """Linear form (const, {term: coeff}) of a size expression; terms are strlen(X) / pel(X)."""
    e = strip_casts(e)
    v = const_val(e)
    if v is not None:
        return (v, {})
    k = e.get('k')
    if k == 'bin' and e['op'] in ('+', '-'):
        a, b = _lin(e['l'], env), _lin(e['r'], env)
        if a is None or b is None:
            return None
        return _lin_add(a, b, 1 if e['op'] == '+' else -1)
    if k == 'call':
        cn = callee_name(e)
        if cn == 'strlen':
            return (0, {'strlen(%s)' % expr_str(strip_casts(e['args'][0])): 1})
        if cn == 'pointer_encoded_length':
            return (0, {'pel(%s)' % expr_str(strip_casts(e['args'][0])): 1})
        if cn == 'sprintf' and len(e['args']) >= 2 and strip_casts(e['args'][1]).get('k') == 'str':
            # the value of sprintf is the number of characters it wrote: literals exactly, %s as strlen, a bounded conversion as
            # one term with that bound
            total = (0, {})
            ai = 2
            for piece in parse_format(strip_casts(e['args'][1])['bytes']):
                if piece[0] == 'lit':
                    total = _lin_add(total, (piece[1], {}))
                    continue
                arg = e['args'][ai] if ai < len(e['args']) else None
                ai += 1
                if piece[1] == 's' and arg is not None and strip_casts(arg).get('k') == 'str':
                    total = _lin_add(total, (len(bytes(strip_casts(arg)['bytes']).split(b'\0')[0]), {}))
                elif piece[1] == 's':
                    total = _lin_add(total, (0, {'strlen(%s)' % expr_str(strip_casts(arg)): 1}))
                else:
                    m = conv_max_len(piece, _UNIT, arg)
                    if m is None:
                        return None
                    atom = 'printed(%%%s %s)' % (piece[1], expr_str(strip_casts(arg))[:30] if arg is not None else '?')
                    _UB[atom] = m
                    total = _lin_add(total, (0, {atom: 1}))
            return total
        if _UNIT is not None and cn in _UNIT.functions and e.get('ty') is not None:
            t = _UNIT.ty(e.get('ty0', e['ty']))
            pure = all(strip_casts(a).get('k') in ('ref', 'mem', 'int') or const_val(a) is not None for a in e['args'])
            if t['c'] == 'int' and t.get('unsigned') and pure:
                return (0, {'%s(%s)' % (cn, ', '.join(expr_str(strip_casts(a)) for a in e['args'])): 1})   # some non-negative count
        return None
    if k == 'ref' and e['d'] in env:
        return env[e['d']]
    return None


def _single_defs(fn):
    """decl id -> linear form for locals with exactly one definition that is linear."""
    defs = {}
    for d in fn.locals():
        if 'init' in d:
            defs.setdefault(d['d'], []).append(d['init'])
    for a in assignments(fn):
        if is_ref(a['l']):
            defs.setdefault(strip_casts(a['l'])['d'], []).append(a['r'] if a['op'] == '=' else None)
    env = {}
    for _round in range(3):
        for d, vals in defs.items():
            vals = [v for v in vals if not (v is not None and const_val(v) == 0 and len(vals) > 1)]
            if len(vals) == 1 and vals[0] is not None:
                l = _lin(vals[0], env)
                if l is not None:
                    env[d] = l
    return env


def _ptr_split(e):
    """p + a + b -> (p, [a, b])"""
    e = strip_casts(e)
    offs = []
    while e.get('k') == 'bin' and e['op'] == '+':
        offs.append(e['r'])
        e = strip_casts(e['l'])
    return e, offs


_UB = {}      # atom -> largest value it can have (lengths produced by bounded sprintf conversions)


def _leq(a, b):
    """a <= b for linear forms with non-negative terms; a term of a that b lacks may be replaced by its upper bound."""
    slack = b[0] - a[0]
    for k, v in a[1].items():
        extra = v - b[1].get(k, 0)
        if extra > 0:
            if k not in _UB:
                return False
            slack -= extra * _UB[k]
    return slack >= 0


def _fmt(l):
    parts = ['%s%s' % ('' if v == 1 else '%d*' % v, k) for k, v in sorted(l[1].items())]
    parts.append(str(l[0]))
    return ' + '.join(parts)


def _bounded_writer(u, h):
    """{destination parameter index: length parameter index} when every store of h through the destination parameter has an
    index in [0, length): the down-counting idiom (while (n > 0) { n--; d[n] = ..; }) or the up-counting one
    (for (i = 0; i < n; i++) d[i] = ..;).  None when h stores through a pointer parameter in a way that is not recognised."""
    from ..dataflow import node_effects
    out = {}
    pidx = {p['d']: i for i, p in enumerate(h.params)}
    cfg = h.cfg()
    mods = {}          # decl -> list of ('dec'|'inc'|'other', node id)
    for m in cfg.nodes:
        for ev in node_effects(m):
            if ev.kind == 'incdec' and strip_casts(ev.lhs).get('k') == 'ref':
                mods.setdefault(strip_casts(ev.lhs)['d'], []).append(('dec' if ev.delta < 0 else 'inc', m.id))
            elif ev.kind == 'store' and strip_casts(ev.lhs).get('k') == 'ref':
                r = ev.rhs
                kind = 'zero' if (r is not None and const_val(r) == 0 and ev.node['op'] == '=') else 'other'
                mods.setdefault(strip_casts(ev.lhs)['d'], []).append((kind, m.id))
            elif ev.kind == 'declinit' and ev.rhs is not None:
                mods.setdefault(ev.lhs['d'], []).append(('zero' if const_val(ev.rhs) == 0 else 'other', m.id))
    for m in cfg.nodes:
        for ev in node_effects(m):
            if ev.kind != 'store':
                continue
            l = strip_casts(ev.lhs)
            acc = access(l) if l.get('k') in ('idx', 'un') else None
            if acc is None:
                continue
            base = strip_casts(acc[0])
            if base.get('k') != 'ref' or base.get('d') not in pidx:
                continue
            di = pidx[base['d']]
            if mods.get(base['d']):
                return None
            idx = acc[1]
            if not isinstance(idx, dict) or strip_casts(idx).get('k') != 'ref':
                return None
            iv = strip_casts(idx)['d']

            def guard_lt(nn, lab, iv=iv):
                """true edge of  iv < N  /  iv > 0  /  iv != 0  /  iv"""
                if nn.kind != 'branch' or lab is None or lab[0] != 'T':
                    return None
                c = strip_casts(nn.expr)
                if c.get('k') == 'ref' and c['d'] == iv:
                    return 'pos'
                if c.get('k') == 'bin' and strip_casts(c['l']).get('k') == 'ref' and strip_casts(c['l'])['d'] == iv:
                    if c['op'] in ('>', '!=') and const_val(c['r']) == 0:
                        return 'pos'
                    if c['op'] == '<' and strip_casts(c['r']).get('k') == 'ref' and strip_casts(c['r']).get('d') in pidx:
                        return ('lt', strip_casts(c['r'])['d'])
                return None
            ok = False
            if iv in pidx and all(k == 'dec' for (k, _n) in mods.get(iv, [])):
                # down-counting: every path to the store passes `iv > 0` and then exactly one decrement
                decs = {n for (_k, n) in mods.get(iv, [])}
                gates = [g for g in cfg.nodes if any(guard_lt(g, lab) == 'pos' for (_y, lab) in cfg.succ[g.id])]
                for g in gates:
                    for (y, lab) in cfg.succ[g.id]:
                        if guard_lt(g, lab) != 'pos':
                            continue
                        # from the true edge to the store: one decrement node, on every path
                        reach_wo = cfg.reachable(y, stop=decs) | {y}
                        first = (y in decs) or (m.id not in reach_wo)
                        once = False
                        for dnode in decs:
                            after = cfg.reachable(dnode, stop=(decs - {dnode}) | {g.id}) | {dnode}
                            if m.id in after or dnode == m.id:
                                once = True
                        if first and once and guarded_by(cfg, m.id, lambda nn, lab2, g=g: nn.id == g.id and lab2 is not None and lab2[0] == 'T'):
                            ok = True
                            out[di] = pidx[iv]
            else:
                kinds = [k for (k, _n) in mods.get(iv, [])]
                if kinds and all(k in ('zero', 'inc') for k in kinds) and 'zero' in kinds:
                    incs = {n for (k, n) in mods[iv] if k == 'inc'}
                    for g in cfg.nodes:
                        for (y, lab) in cfg.succ[g.id]:
                            r = guard_lt(g, lab)
                            if isinstance(r, tuple) and not mods.get(r[1]):
                                reach_wo = cfg.reachable(y, stop=incs) | {y}
                                if (m.id in reach_wo) and guarded_by(cfg, m.id, lambda nn, lab2, g=g: nn.id == g.id and lab2 is not None and lab2[0] == 'T'):
                                    ok = True
                                    out[di] = pidx[r[1]]
            if not ok:
                return None
    return out


def _inline_writers(u, h, pi, call):
    """The string-writer calls of helper h whose destination is its parameter pi, with h's parameters replaced by the arguments of
    `call` - or None when h does anything else with that parameter (stores through it, hands it on, changes it)."""
    import copy
    pd = h.params[pi]['d']
    sub = {p['d']: a for p, a in zip(h.params, call['args'])}
    WR = ('sprintf', 'strcat', 'strcpy', 'encode_string_as_pointer', 'memcpy')
    uses = [x for x in h.nodes() if x.get('k') == 'ref' and x.get('d') == pd]
    wcalls = []
    accounted = 0
    for c in h.calls():
        if callee_name(c) in WR and c['args']:
            base, _o = _ptr_split(c['args'][0])
            if base.get('k') == 'ref' and base.get('d') == pd:
                wcalls.append(c)
                accounted += sum(1 for x in walk(c['args'][0]) if x.get('k') == 'ref' and x.get('d') == pd)
    if not wcalls or accounted != len(uses):
        return None
    # parameters must not be modified in the helper (their values are the caller's expressions)
    for a in assignments(h):
        l = strip_casts(a['l'])
        if l.get('k') == 'ref' and l.get('d') in sub:
            return None
    if any(x.get('k') == 'un' and '++' in x.get('op', '') or x.get('k') == 'un' and '--' in x.get('op', '') for x in h.nodes()):
        return None

    def subst(x):
        if isinstance(x, list):
            return [subst(y) for y in x]
        if not isinstance(x, dict):
            return x
        if x.get('k') == 'ref' and x.get('d') in sub:
            return copy.deepcopy(sub[x['d']])
        return {k: subst(v) for k, v in x.items()}
    out = []
    for c in wcalls:
        c2 = subst(c)
        c2['loc'] = call['loc']
        c2['via_helper'] = h.name
        out.append(c2)
    return out


def out7(units, R):
    global _UNIT
    u = units['cJSON_Utils.c']
    _UNIT = u
    _UB.clear()
    nsites = 0
    summaries = {}
    broken = []
    for fn in u.function_list:
        env = None
        cfg = None
        # local character arrays that only ever receive the output of fully bounded sprintf formats (an index printed with %lu):
        # the text in them, and in pointers that are only ever pointed at them, has a known largest length
        if fn.body is not None:
            arrays = {d_['d']: d_ for d_ in fn.locals() if u.ty(d_['ty'])['c'] == 'array'}
            fills = {}
            other_writes = set()
            for c in fn.calls():
                cn = callee_name(c)
                if not c.get('args'):
                    continue
                base, _o = _ptr_split(c['args'][0])
                if base.get('k') == 'ref' and base.get('d') in arrays:
                    if cn == 'sprintf' and len(c['args']) >= 2 and strip_casts(c['args'][1]).get('k') == 'str' and not _o:
                        tot = 0
                        ai = 2
                        for piece in parse_format(strip_casts(c['args'][1])['bytes']):
                            if piece[0] == 'lit':
                                tot += piece[1]
                                continue
                            arg = c['args'][ai] if ai < len(c['args']) else None
                            ai += 1
                            m = conv_max_len(piece, u, arg) if piece[1] != 's' else None
                            if m is None:
                                tot = None
                                break
                            tot += m
                        if tot is None:
                            other_writes.add(base['d'])
                        else:
                            fills.setdefault(base['d'], []).append((c, tot))
                    elif cn in ('strcpy', 'strcat', 'memcpy', 'memset', 'strncpy', 'snprintf') or cn in u.functions:
                        other_writes.add(base['d'])
            for a_ in assignments(fn):
                l_ = strip_casts(a_['l'])
                if l_.get('k') in ('idx', 'un'):
                    b_, _o2 = _ptr_split(l_['b'] if l_.get('k') == 'idx' else l_['e'])
                    if b_.get('k') == 'ref' and b_.get('d') in arrays:
                        other_writes.add(b_['d'])
            for bd, fl in fills.items():
                if bd in other_writes:
                    continue
                mx = max(t_ for (_c, t_) in fl)
                cap = u.ty(arrays[bd]['ty']).get('count')
                for (c_, t_) in fl:
                    nsites += 1
                    okf = cap is not None and t_ + 1 <= cap
                    R.ob('OUT7', fn, c_, '%s fits the local array %s' % (expr_str(c_)[:50], arrays[bd]['n']), okf,
                         'at most %d characters and the terminator into %s bytes' % (t_, cap), key='arr:%s' % arrays[bd]['n'])
                _UB['strlen(%s)' % arrays[bd]['n']] = mx
                # pointers that only ever point at the array (or are NULL)
                pdefs = {}
                for a_ in assignments(fn):
                    if is_ref(a_['l']):
                        pdefs.setdefault(strip_casts(a_['l'])['d'], []).append(a_['r'] if a_['op'] == '=' else None)
                for d_ in fn.locals():
                    if 'init' in d_:
                        pdefs.setdefault(d_['d'], []).append(d_['init'])
                for pd_, rs_ in pdefs.items():
                    if pd_ in arrays or not rs_:
                        continue
                    if all(r_ is not None and (is_null_const(r_) or (strip_casts(r_).get('k') == 'ref' and strip_casts(r_).get('d') == bd)) for r_ in rs_):
                        nm = [d_['n'] for d_ in fn.locals() if d_['d'] == pd_]
                        if nm:
                            _UB['strlen(%s)' % nm[0]] = mx
        for d in fn.locals():
            if 'init' not in d:
                continue
            init = strip_casts(d['init'])
            if init.get('k') != 'call' or callee_name(init) != 'cJSON_malloc':
                continue
            # is the block filled by string writers?
            V = d['n']
            writers = []
            for c in fn.calls():
                cn = callee_name(c)
                if cn in ('sprintf', 'strcat', 'strcpy', 'encode_string_as_pointer', 'memcpy') and c['args']:
                    base, _off = _ptr_split(c['args'][0])
                    if base.get('k') == 'ref' and base['d'] == d['d']:
                        writers.append(c)
                elif cn in u.functions and u.functions[cn].body is not None:
                    # a helper of this unit handed a pointer into the block through a parameter it may write through
                    h = u.functions[cn]
                    for ai, a in enumerate(c['args']):
                        base, _off = _ptr_split(a)
                        if base.get('k') == 'ref' and base['d'] == d['d'] and ai < len(h.params):
                            pt = u.ty(h.params[ai]['ty'])
                            if pt['c'] == 'ptr' and not pt.get('pointee_const'):
                                inl = _inline_writers(u, h, ai, c)
                                if inl is not None:
                                    writers.extend(inl)      # the helper only forwards to string writers: those calls, with its arguments put in
                                    continue
                                if cn not in summaries:
                                    summaries[cn] = _bounded_writer(u, h)
                                sm = summaries[cn]
                                if sm is None or ai not in sm:
                                    broken.append('OUT7: %s hands %s to %s, whose stores through that parameter are neither calls of the string '
                                                  'writers nor bounded by a recognised counting loop' % (fn.name, d['n'], cn))
                                    continue
                                writers.append(c)
            if not writers:
                continue
            nsites += 1
            env = env or _single_defs(fn)
            size = _lin(init['args'][0], env)
            if size is None:
                R.ob('OUT7', fn, init, 'size of %s is a linear expression' % V, False,
                     'cannot express %s' % expr_str(init['args'][0]), key='size:' + V)
                continue
            # walk the writers in source order (they are in straight-line code after the allocation)
            cur = None   # current string length (linear) of V, None = unknown
            ordered = sorted(writers + [a for a in assignments(fn) if strip_casts(a['l']).get('k') == 'idx'
                                        and is_ref(strip_casts(a['l'])['b']) and strip_casts(strip_casts(a['l'])['b'])['d'] == d['d']],
                             key=lambda n: (n['loc'][0], n['loc'][1]))
            for wnode in ordered:
                need = None
                what = expr_str(wnode)[:70]
                if wnode.get('k') == 'bin':
                    il = _lin(strip_casts(wnode['l'])['i'], env)
                    if il is None:
                        R.ob('OUT7', fn, wnode, 'indexed store into sized block %s' % V, False, 'index is not a linear expression', key='w:' + what)
                        continue
                    need = _lin_add(il, (1, {}))
                    if cur is None or _leq(cur, il):
                        cur_after = need   # bytes [0..i] defined; string continues at i+1
                    else:
                        cur_after = cur
                    ok = _leq(need, size)
                    R.ob('OUT7', fn, wnode, 'store %s within %s' % (what, _fmt(size)), ok,
                         'needs %s' % _fmt(need), key='w:' + what)
                    cur = cur_after
                    continue
                cn = callee_name(wnode)
                args = wnode['args']
                if cn in summaries and summaries[cn]:
                    for ai, li in summaries[cn].items():
                        base, offs = _ptr_split(args[ai])
                        if not (base.get('k') == 'ref' and base['d'] == d['d']):
                            continue
                        off = (0, {})
                        for o in offs:
                            lo = _lin(o, env)
                            off = _lin_add(off, lo) if (off is not None and lo is not None) else None
                        n_ = _lin(args[li], env) if li < len(args) else None
                        if off is None or n_ is None:
                            R.ob('OUT7', fn, wnode, 'extent of %s' % what, False, 'offset or count is not linear', key='w:' + what)
                            continue
                        need = _lin_add(off, n_)
                        ok = _leq(need, size)
                        R.ob('OUT7', fn, wnode, '%s fits the block of %s bytes' % (what, _fmt(size)), ok,
                             '%s stores below index %s of its destination: at most %s bytes' % (cn, expr_str(strip_casts(args[li])), _fmt(need)) if ok
                             else 'may write %s bytes into %s' % (_fmt(need), _fmt(size)), key='w:' + what)
                        if cur is None or _leq(cur, need):
                            cur = need
                    continue
                _b, offs = _ptr_split(args[0])
                off = (0, {})
                for o in offs:
                    lo = _lin(o, env)
                    off = _lin_add(off, lo) if (off is not None and lo is not None) else None
                if off is None:
                    R.ob('OUT7', fn, wnode, 'offset of %s' % what, False, 'not linear', key='w:' + what)
                    continue
                if cn == 'sprintf':
                    fmt = strip_casts(args[1])
                    if fmt.get('k') != 'str':
                        R.ob('OUT7', fn, wnode, 'format of %s' % what, False, 'not a literal', key='w:' + what)
                        continue
                    total = (0, {})
                    ai = 2
                    bad = None
                    for piece in parse_format(fmt['bytes']):
                        if piece[0] == 'lit':
                            total = _lin_add(total, (piece[1], {}))
                            continue
                        arg = args[ai] if ai < len(args) else None
                        ai += 1
                        if piece[1] == 's' and arg is not None and strip_casts(arg).get('k') == 'str':
                            total = _lin_add(total, (len(bytes(strip_casts(arg)['bytes']).split(b'\0')[0]), {}))
                        elif piece[1] == 's':
                            total = _lin_add(total, (0, {'strlen(%s)' % expr_str(strip_casts(arg)): 1}))
                        else:
                            m = conv_max_len(piece, u, arg)
                            if m is None:
                                bad = piece
                            else:
                                total = _lin_add(total, (m, {}))
                    if bad:
                        R.ob('OUT7', fn, wnode, 'conversion in %s' % what, False, 'unbounded conversion %%%s' % bad[1], key='w:' + what)
                        continue
                    end = _lin_add(off, total)
                    need = _lin_add(end, (1, {}))
                    cur = end
                elif cn == 'encode_string_as_pointer':
                    body = (0, {'pel(%s)' % expr_str(strip_casts(args[1])): 1})
                    end = _lin_add(off, body)
                    need = _lin_add(end, (1, {}))
                    # the encoded key must continue the string written so far
                    if cur is not None and not (_leq(off, cur) and _leq(cur, off)):
                        R.ob('OUT7', fn, wnode, 'encoded key appended where the text so far ends', False,
                             'text so far ends at %s, key written at %s' % (_fmt(cur), _fmt(off)), key='cont:' + what)
                    cur = end
                elif cn == 'strcat':
                    if cur is None:
                        R.ob('OUT7', fn, wnode, 'strcat onto a defined string', False, 'length of %s unknown here' % V, key='w:' + what)
                        continue
                    end = _lin_add(cur, (0, {'strlen(%s)' % expr_str(strip_casts(args[1])): 1}))
                    need = _lin_add(end, (1, {}))
                    cur = end
                elif cn == 'strcpy':
                    src = strip_casts(args[1])
                    body = (len(src['bytes']), {}) if src.get('k') == 'str' else (0, {'strlen(%s)' % expr_str(src): 1})
                    end = _lin_add(off, body)
                    need = _lin_add(end, (1, {}))
                    cur = end
                elif cn == 'memcpy':
                    n_ = _lin(args[2], env)
                    if n_ is None:
                        R.ob('OUT7', fn, wnode, 'memcpy length', False, 'not linear', key='w:' + what)
                        continue
                    need = _lin_add(off, n_)
                    if cur is None or _leq(cur, need):
                        cur = need
                ok = _leq(need, size)
                R.ob('OUT7', fn, wnode, '%s fits the block of %s bytes' % (what, _fmt(size)), ok,
                     'writes at most %s bytes' % _fmt(need) if ok else 'may write %s bytes into %s' % (_fmt(need), _fmt(size)),
                     key='w:' + what)
    R.floor('OUT7', 'sized string blocks in Utils', nsites, 3)
    if broken:
        raise AnalysisBroken(broken[0])
