"""LST rules: sibling-list shape maintenance (DESIGN.md section 3)."""
from ..facts import (AnalysisBroken, walk, strip_casts, expr_str, is_null_const, const_val, ASSIGN_OPS, callee_name)
from .common import assignments, is_ref, is_mem, all_functions, guarded_by, node_containing

REF_MACRO = 'cJSON_IsReference'


def _mentions_macro(e, name):
    for x in walk(e):
        if name in (x.get('m') or []):
            return True
    return False


def _field_stores(fn, field):
    out = []
    for a in assignments(fn):
        l = strip_casts(a['l'])
        if l.get('k') == 'mem' and l['f'] == field:
            out.append((a, l))
    return out


def lst1(units, R):
    """A function that stores X->child = V (V not a null constant) also stores V->prev or X->child->prev
    (the first child's back link designates the last child), unless X is marked as a reference in the same
    function (borrowed chain)."""
    n = 0
    for u, fn in all_functions(units):
        stores = _field_stores(fn, 'child')
        if not stores:
            continue
        prevs = [(a, l) for (a, l) in _field_stores(fn, 'prev')]
        prev_bases = {expr_str(strip_casts(l['b'])) for (_a, l) in prevs}
        types = _field_stores(fn, 'type')
        for (a, l) in stores:
            if is_null_const(a['r']):
                continue
            n += 1
            X = expr_str(strip_casts(l['b']))
            V = strip_casts(a['r'])
            Vs = expr_str(V)
            xchild = '%s%schild' % (X, '->' if l['arrow'] else '.')
            if any(expr_str(strip_casts(tl['b'])) == X and _mentions_macro(ta, REF_MACRO) for (ta, tl) in types):
                R.ob('LST1', fn, a, 'child store %s' % expr_str(a), True,
                     '%s is marked cJSON_IsReference in this function: the chain is borrowed, not owned' % X,
                     key='child:%s=%s' % (xchild, Vs))
                continue
            ok = Vs in prev_bases or xchild in prev_bases
            why = 'function stores %s->prev' % (Vs if Vs in prev_bases else xchild) if ok else \
                'no store to %s->prev or %s->prev: the first child\'s back link no longer designates the last child' % (Vs, xchild)
            R.ob('LST1', fn, a, 'child store %s restores the tail link' % expr_str(a), ok, why,
                 key='child:%s=%s' % (xchild, Vs if V.get('k') != 'call' else callee_name(V)))
    R.floor('LST1', 'non-null child stores', n, 15)


def lst5(units, R):
    """Sorting relinks, it never edits: sort_list stores only to next/prev of list nodes, calls only itself and
    the key comparator, and sort_object's only other effect is the child store checked by LST1."""
    u = units['cJSON_Utils.c']
    fn = u.fn('sort_list')
    n = 0
    for a in assignments(fn):
        l = strip_casts(a['l'])
        if l.get('k') == 'mem':
            n += 1
            ok = l['f'] in ('next', 'prev')
            R.ob('LST5', fn, a, 'store %s touches link fields only' % expr_str(a)[:60], ok,
                 'link field %s' % l['f'] if ok else 'sorting modifies member field %s (keys/values/subtrees must stay untouched)' % l['f'],
                 key='store:' + l['f'])
        elif l.get('k') in ('un', 'idx'):
            n += 1
            R.ob('LST5', fn, a, 'store through pointer %s' % expr_str(a)[:60], False, 'sorting writes through a raw pointer',
                 key='rawstore:' + expr_str(l))
    for c in fn.calls():
        cn = callee_name(c)
        n += 1
        ok = cn in ('sort_list', 'compare_strings', 'strcmp')
        R.ob('LST5', fn, c, 'call %s' % (cn or expr_str(c['fn'])), ok,
             'recursion / key comparator' if ok else 'sorting calls %s (may allocate, release or edit nodes)' % cn,
             key='call:%s' % cn)
    so = u.fn('sort_object')
    for c in so.calls():
        cn = callee_name(c)
        ok = cn == 'sort_list'
        R.ob('LST5', so, c, 'sort_object calls %s' % cn, ok, '' if ok else 'unexpected callee', key='so-call:%s' % cn)
    for a in assignments(so):
        l = strip_casts(a['l'])
        if l.get('k') == 'mem':
            ok = l['f'] in ('child', 'prev', 'next')
            R.ob('LST5', so, a, 'sort_object store %s' % expr_str(a)[:60], ok, 'container link field' if ok else
                 'sort_object edits %s' % l['f'], key='so-store:' + l['f'])
    # every internal sorter goes through sort_object (so LST1's obligation there covers them)
    for f2 in u.function_list:
        for c in f2.calls():
            if callee_name(c) == 'sort_list' and f2.name not in ('sort_list', 'sort_object'):
                R.ob('LST5', f2, c, 'sort_list called outside sort_object', False,
                     'the caller must restore child->prev itself', key='direct-sort')
    R.floor('LST5', 'stores and calls in sort_list', n, 12)
