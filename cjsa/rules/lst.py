"""LST rules: sibling-list shape maintenance (DESIGN.md section 3)."""
from ..facts import (AnalysisBroken, walk, strip_casts, expr_str, is_null_const, const_val, ASSIGN_OPS, callee_name)
from .common import assignments, is_ref, is_mem, all_functions, guarded_by, node_containing, cmp_parts

REF_MACRO = 'cJSON_IsReference'


def _mentions_macro(e, name):
    """The assignment e sets the flag `name` (ORs it in); clearing it (`& ~flag`) does not count."""
    e = strip_casts(e)
    if e.get('k') == 'bin' and e['op'] == '|=':
        return any(name in (x.get('m') or []) for x in walk(e['r']))
    if e.get('k') == 'bin' and e['op'] == '=':
        for x in walk(e['r']):
            if x.get('k') == 'bin' and x['op'] == '|':
                for side in (x['l'], x['r']):
                    s0 = strip_casts(side)
                    if name in (s0.get('m') or []) and not (s0.get('k') == 'un' and s0['op'] == '~'):
                        return True
    return False


def _field_stores(fn, field):
    out = []
    slots = None
    for a in assignments(fn):
        l = strip_casts(a['l'])
        if l.get('k') == 'mem' and l['f'] == field:
            out.append((a, l))
        elif l.get('k') == 'un' and l.get('op') == '*' and strip_casts(l['e']).get('k') == 'ref' and a['op'] == '=':
            # *link = v, link a local that only ever holds addresses of fields (&x->child, &y->next): a store to each field of that
            # name it may designate
            if slots is None:
                slots = {}
                defs = {}
                for d_ in fn.locals():
                    if 'init' in d_:
                        defs.setdefault(d_['d'], []).append(d_['init'])
                for a2 in assignments(fn):
                    if is_ref(a2['l']):
                        defs.setdefault(strip_casts(a2['l'])['d'], []).append(a2['r'] if a2['op'] == '=' else None)
                for d_, rs_ in defs.items():
                    tg = []
                    ok = True
                    for r_ in rs_:
                        if r_ is None:
                            ok = False
                            break
                        r0 = strip_casts(r_)
                        if is_null_const(r_) or r0.get('null'):
                            continue
                        if r0.get('k') == 'un' and r0.get('op') == '&' and strip_casts(r0['e']).get('k') == 'mem':
                            tg.append(strip_casts(r0['e']))
                        else:
                            ok = False
                            break
                    if ok and tg:
                        slots[d_] = tg
            for m_ in slots.get(strip_casts(l['e'])['d'], []):
                if m_['f'] == field:
                    out.append((a, m_))
    return out


_fr_cache = {}


def _failure_released(u, fn, seen=()):
    """fn is a static helper that reports failure by a zero / NULL result, and every caller that sees that result releases what
    was being built (cJSON_Delete on the failure edge before it can return success) or fails in the same way itself: a list
    left half-linked on such a return is never walked."""
    key = (id(u), fn.name)
    if key in _fr_cache:
        return _fr_cache[key]
    if not fn.static or fn.name in seen:
        return False
    sites = [(g, c) for g in u.function_list if g.body is not None for c in g.calls() if callee_name(c) == fn.name]
    ok = bool(sites)
    for (g, c) in sites:
        cfg = g.cfg()
        node = cfg.node_of_expr(c['id'])
        if node is None or node.kind != 'branch':
            ok = False
            break
        e = strip_casts(node.expr)
        neg = False
        while e.get('k') == 'un' and e['op'] == '!':
            e = strip_casts(e['e'])
            neg = not neg
        if e is not c and strip_casts(e) is not c:
            pc = cmp_parts(node.expr)
            if pc is None or strip_casts(pc[0]) is not c or pc[2] != 0 or pc[1] not in ('==', '!='):
                ok = False
                break
            fail_label = 'T' if pc[1] == '==' else 'F'
        else:
            # the CFG branches on the call value itself (negations are folded into the labels)
            fail_label = 'F'
        starts = [y for (y, l) in cfg.succ[node.id] if l is not None and l[0] == fail_label]
        # from the failure edge, every return reached is a failing one or comes after a cJSON_Delete
        dels = {m.id for m in cfg.nodes if m.expr is not None and any(
            x.get('k') == 'call' and callee_name(x) == 'cJSON_Delete' for x in walk(m.expr))}
        work = list(starts)
        seen_n = set(work)
        while work and ok:
            x = work.pop()
            if x in dels:
                continue
            nx = cfg.nodes[x]
            if nx.kind == 'return':
                failing = nx.expr is not None and (is_null_const(nx.expr) or const_val(nx.expr) == 0)
                if not (failing and (g.name == fn.name or _failure_released(u, g, seen + (fn.name,)))):
                    ok = False
                continue
            for (y, _l) in cfg.succ[x]:
                if y not in seen_n:
                    seen_n.add(y)
                    work.append(y)
        if not ok:
            break
    _fr_cache[key] = ok
    return ok


def _tail_verified(e, truth):
    """Is (e evaluated to truth) the edge on which `H->prev->next` is NULL - the node the back link designates has no successor, so
    it is the last one and the link needs no repair?  (if ((object->child == first) && (first->prev->next == NULL)) return;)"""
    e = strip_casts(e)
    neg = False
    while e.get('k') == 'un' and e['op'] == '!':
        e = strip_casts(e['e'])
        neg = not neg
    x = None
    if e.get('k') == 'bin' and e['op'] in ('==', '!='):
        other = e['l'] if is_null_const(e['r']) else (e['r'] if is_null_const(e['l']) else None)
        if other is None:
            return False
        x = strip_casts(other)
        isnull_when_true = (e['op'] == '==') != neg
    else:
        x = e
        isnull_when_true = neg
    if x.get('k') == 'mem' and x['f'] == 'next' and strip_casts(x['b']).get('k') == 'mem' and strip_casts(x['b'])['f'] == 'prev':
        return isnull_when_true == truth
    return False


def _null_side(e, truth, names):
    """Is (e evaluated to truth) the edge on which one of the expressions in names is NULL?"""
    e = strip_casts(e)
    if e.get('k') == 'bin' and e['op'] in ('==', '!='):
        other = e['l'] if is_null_const(e['r']) else (e['r'] if is_null_const(e['l']) else None)
        if other is not None and expr_str(strip_casts(other)) in names:
            return (e['op'] == '==') == truth
        return False
    if expr_str(e) in names:
        return not truth
    return False


def _nn_step(fn_locals, node, nn):
    """Locals known to be non-NULL after executing node, given the set known before it."""
    out = set(nn)
    if node.kind == 'decl' and node.decl is not None:
        out.discard(node.decl['n'])
        if 'init' in node.decl and expr_str(strip_casts(node.decl['init'])) in nn:
            out.add(node.decl['n'])
        return frozenset(out)
    if node.expr is None:
        return nn
    for x in walk(node.expr):
        if x.get('k') == 'bin' and x['op'] in ASSIGN_OPS and is_ref(x['l']):
            l = strip_casts(x['l'])
            if l.get('dk') not in ('local', 'param'):
                continue
            if x['op'] == '=' and expr_str(strip_casts(x['r'])) in nn:
                out.add(l['n'])
            else:
                out.discard(l['n'])
        elif x.get('k') == 'un' and x['op'] in ('post++', 'post--', 'pre++', 'pre--', '&') and is_ref(x['e']):
            out.discard(strip_casts(x['e'])['n'])
    return frozenset(out)


def _nonnull_name(e, truth):
    """Name of the local that the edge (e evaluated to truth) shows to be non-NULL, if any."""
    e = strip_casts(e)
    if e.get('k') == 'bin' and e['op'] in ('==', '!='):
        other = e['l'] if is_null_const(e['r']) else (e['r'] if is_null_const(e['l']) else None)
        if other is not None and is_ref(other) and (e['op'] == '!=') == truth:
            return strip_casts(other)['n']
        return None
    if is_ref(e) and truth:
        return e['n']
    return None


def lst1(units, R):
    """Every path through a store X->child = V (V not a null constant) also passes a store to V->prev or
    X->child->prev (the first child's back link designates the last child), unless the path establishes that the
    new child is NULL, releases the container, or X is marked as a reference in the same function."""
    n = 0
    for u, fn in all_functions(units):
        stores = _field_stores(fn, 'child')
        if not stores:
            continue
        prevs = _field_stores(fn, 'prev')
        types = _field_stores(fn, 'type')
        cfg = None
        for (a, l) in stores:
            if is_null_const(a['r']):
                continue
            n += 1
            X = expr_str(strip_casts(l['b']))
            V = strip_casts(a['r'])
            Vs = expr_str(V)
            xchild = '%s%schild' % (X, '->' if l['arrow'] else '.')
            key = 'child:%s=%s' % (xchild, Vs if V.get('k') != 'call' else callee_name(V))
            if any(expr_str(strip_casts(tl['b'])) == X and _mentions_macro(ta, REF_MACRO) for (ta, tl) in types):
                R.ob('LST1', fn, a, 'child store %s' % expr_str(a), True,
                     '%s is marked cJSON_IsReference in this function: the chain is borrowed, not owned' % X, key=key)
                continue
            good_bases = {Vs, xchild}
            # a local that was assigned the same value as V counts as V (head = new_item; ... head->prev)
            pstores = [(pa, pl) for (pa, pl) in prevs if expr_str(strip_casts(pl['b'])) in good_bases]
            if not pstores:
                R.ob('LST1', fn, a, 'child store %s restores the tail link' % expr_str(a), False,
                     'no store to %s->prev or %s->prev: the first child\'s back link no longer designates the last child' % (Vs, xchild),
                     key=key)
                continue
            cfg = cfg or fn.cfg()
            S = node_containing(cfg, a).id
            P = {node_containing(cfg, pa).id for (pa, pl) in pstores if expr_str(strip_casts(pl['b'])) == xchild}
            PV = {node_containing(cfg, pa).id for (pa, pl) in pstores if expr_str(strip_casts(pl['b'])) == Vs} - P
            # a store to V->prev only counts while the variables of V still hold the stored value
            vvars = {x['d'] for x in walk(V) if x.get('k') == 'ref' and x.get('dk') in ('local', 'param')}
            K = set()
            for x in assignments(fn):
                if is_ref(x['l']) and strip_casts(x['l'])['d'] in vvars and x is not a:
                    K.add(node_containing(cfg, x).id)
            for x in fn.nodes():
                if x.get('k') == 'un' and x['op'] in ('post++', 'post--', 'pre++', 'pre--') and is_ref(x['e']) and \
                        strip_casts(x['e'])['d'] in vvars:
                    K.add(node_containing(cfg, x).id)
            # releasing the container is as good as fixing it
            for nd in cfg.nodes:
                if nd.expr is None:
                    continue
                for c in walk(nd.expr):
                    if c.get('k') == 'call' and callee_name(c) == 'cJSON_Delete' and c['args'] and \
                            expr_str(strip_casts(c['args'][0])) == X:
                        P.add(nd.id)
            # a helper's failing return hands the half-built container back to a caller that releases it
            if _failure_released(u, fn):
                for rn in cfg.returns():
                    if rn.expr is not None and (is_null_const(rn.expr) or const_val(rn.expr) == 0):
                        P.add(rn.id)
            names = {Vs, xchild, X}
            # forward, locals known to be non-NULL are tracked along the path: the new child itself (paths on which it
            # is NULL are exempt), copies of it, and locals tested on the way (`p = n; ... if (p != NULL)`)
            nn0 = frozenset({V['n']}) if V.get('k') == 'ref' else frozenset()

            def reach(start, forward):
                # states (node, valid, nn): valid = the variables of V have not been re-assigned since/before S
                seen = {(start, True, nn0 if forward else frozenset())}
                work = list(seen)
                adj = cfg.succ if forward else cfg.pred
                while work:
                    x, valid, nn = work.pop()
                    nn_out = _nn_step(None, cfg.nodes[x], nn) if forward else nn
                    for (y, lab) in adj[x]:
                        nn2 = nn_out
                        if lab is not None and lab[0] in ('T', 'F'):
                            if _null_side(lab[1], lab[0] == 'T', names | nn_out):
                                continue
                            if forward and _tail_verified(lab[1], lab[0] == 'T'):
                                continue
                            if forward:
                                nm = _nonnull_name(lab[1], lab[0] == 'T')
                                if nm is not None:
                                    nn2 = nn_out | {nm}
                        v2 = valid and y not in K
                        if y in P or (y in PV and valid and y not in K):
                            continue
                        if (y, v2, nn2) in seen:
                            continue
                        seen.add((y, v2, nn2))
                        work.append((y, v2, nn2))
                return {n for (n, _v, _n) in seen}
            if S in P or S in PV:
                ok = True
            else:
                before = cfg.entry.id in reach(S, False)
                after = cfg.exit.id in reach(S, True)
                ok = not (before and after)
            # a tail link written through X->child *before* X->child is switched lands in the old head: it only counts
            # if another tail-link store follows the child store on that path
            if ok and S not in P:
                allP = P | PV
                # the new first child was given its own back link before the switch (V->prev = X->child->prev; X->child->prev = V;
                # X->child = V): the store through the old head is then the old head's link to V, not a misplaced tail link
                tail_reads = {node_containing(cfg, pa).id for (pa, pl) in pstores if expr_str(strip_casts(pl['b'])) == Vs and
                              pa['op'] == '=' and expr_str(strip_casts(pa['r'])) == xchild + '->prev'}
                linked_first = any(cfg.dominates(pv, S) and not (cfg.reachable(pv, stop={S}) & K) for pv in PV & tail_reads) and \
                    all(pa['op'] == '=' and expr_str(strip_casts(pa['r'])) == Vs for (pa, pl) in pstores
                        if expr_str(strip_casts(pl['b'])) == xchild and node_containing(cfg, pa).id in P)
                for px in ([] if linked_first else P):
                    if cfg.nodes[px].expr is not None and any(
                            c2.get('k') == 'call' and callee_name(c2) == 'cJSON_Delete' for c2 in walk(cfg.nodes[px].expr)):
                        continue
                    mid = cfg.reachable(px, stop=(allP - {px}) | {S})
                    reaches_S = S in {y for x in mid | {px} for (y, _l) in cfg.succ[x]} or S in mid
                    if not reaches_S:
                        continue
                    after_S = cfg.reachable(S, stop=allP)
                    if cfg.exit.id in after_S:
                        ok = False
                        R.ob('LST1', fn, a, 'tail link of %s is not written into the old head' % X, False,
                             '%s->prev is stored at line %d, then %s is re-assigned at line %d and no tail link is stored afterwards: '
                             'the back link went into the node that stopped being the first child'
                             % (xchild, cfg.nodes[px].line, xchild, cfg.nodes[S].line), key=key + ':stale-order')
                        break
                if not ok:
                    continue
            R.ob('LST1', fn, a, 'child store %s restores the tail link on every path' % expr_str(a), ok,
                 'every path through the store passes a store to %s->prev (or the child is NULL / the container is released)'
                 % (Vs if V.get('k') != 'call' else xchild) if ok else
                 'a path through this store reaches the return without storing %s->prev: the first child\'s back link can be stale'
                 % xchild, key=key)
    # calls of a function that re-links a sibling chain handed to it as X->child (sort_list): from the call on, the
    # first child's back link is stale until X->child->prev is stored again
    relinkers = set()
    for u, fn in all_functions(units):
        if 'struct cJSON *' not in u.ty(fn.ret)['s']:
            continue
        cj = [p for p in fn.params if 'struct cJSON *' in u.ty(p['ty'])['s']]
        if cj and any(strip_casts(a['l']).get('k') == 'mem' and strip_casts(a['l'])['f'] == 'next' for a in assignments(fn)) \
                and not _field_stores(fn, 'child'):
            relinkers.add(fn.name)
    nrel = 0
    for u, fn in all_functions(units):
        if fn.name in relinkers:
            continue
        cfg = None
        for c in fn.calls():
            if callee_name(c) not in relinkers or not c['args']:
                continue
            a0 = strip_casts(c['args'][0])
            xchild = None
            if a0.get('k') == 'mem' and a0['f'] == 'child':
                xchild = expr_str(a0)
            elif a0.get('k') == 'ref':
                # a local that was loaded from X->child
                for a in assignments(fn):
                    if is_ref(a['l']) and strip_casts(a['l'])['d'] == a0['d'] and strip_casts(a['r']).get('k') == 'mem' and \
                            strip_casts(a['r'])['f'] == 'child':
                        xchild = expr_str(strip_casts(a['r']))
                for d in fn.locals():
                    if d['d'] == a0['d'] and 'init' in d and strip_casts(d['init']).get('k') == 'mem' and strip_casts(d['init'])['f'] == 'child':
                        xchild = expr_str(strip_casts(d['init']))
            if xchild is None:
                continue
            nrel += 1
            cfg = cfg or fn.cfg()
            S = node_containing(cfg, c).id
            X = xchild[:-len('->child')] if xchild.endswith('->child') else xchild[:-len('.child')]
            heads = {xchild}
            # the new head may be kept in a local first (sorted = sort_list(..); X->child = sorted; sorted->prev = last)
            par = fn.parents().get(c['id'])
            while par is not None and par.get('k') == 'cast':
                par = fn.parents().get(par['id'])
            if par is not None and par.get('k') == 'bin' and par['op'] == '=' and is_ref(par['l']):
                rv = strip_casts(par['l'])
                if any(expr_str(strip_casts(a['l'])) == xchild and is_ref(a['r']) and strip_casts(a['r'])['d'] == rv['d'] for a in assignments(fn)):
                    heads.add(rv['n'])
            for dcl in fn.locals():
                if 'init' in dcl and strip_casts(dcl['init']) is c and \
                        any(expr_str(strip_casts(a['l'])) == xchild and is_ref(a['r']) and strip_casts(a['r'])['d'] == dcl['d'] for a in assignments(fn)):
                    heads.add(dcl['n'])
            P = {node_containing(cfg, pa).id for (pa, pl) in _field_stores(fn, 'prev') if expr_str(strip_casts(pl['b'])) in heads}
            names = {xchild, X}
            seen = {S}
            work = [S]
            while work:
                x = work.pop()
                for (y, lab) in cfg.succ[x]:
                    if lab is not None and lab[0] in ('T', 'F') and _null_side(lab[1], lab[0] == 'T', names):
                        continue
                    if lab is not None and lab[0] in ('T', 'F') and _tail_verified(lab[1], lab[0] == 'T'):
                        continue
                    if y in P or y in seen:
                        continue
                    seen.add(y)
                    work.append(y)
            ok = cfg.exit.id not in seen
            R.ob('LST1', fn, c, 'after %s re-linked the chain of %s the tail link is restored on every path' % (callee_name(c), X), ok,
                 'every path from the call passes a store to %s->prev' % xchild if ok else
                 'a path returns after %s without storing %s->prev: the order of the chain may have changed under an unchanged head'
                 % (callee_name(c), xchild), key='relink:%s:%s' % (callee_name(c), xchild))
    R.floor('LST1', 'non-null child stores', n, 15)


def lst5(units, R):
    """Sorting relinks, it never edits: sort_list (and the static helpers it may be split into) stores only to next/prev of
    list nodes, calls only itself, its helpers and the key comparator, and sort_object's only other effect is the child
    store checked by LST1."""
    u = units['cJSON_Utils.c']
    root = u.fn('sort_list')
    members = [root]
    seen = {root.name}
    work = [root]
    so0 = u.functions.get('sort_object')
    if so0 is not None:
        # static helpers sort_object itself is split into (another way of ordering the members) belong to the sorter as well
        for c in so0.calls():
            h = u.functions.get(callee_name(c))
            if h is not None and h.static and h.name not in seen and h.name != 'compare_strings' and \
                    any('cJSON' in u.ty(p_['ty'])['s'] for p_ in h.params):
                seen.add(h.name)
                members.append(h)
                work.append(h)
    while work:
        f0 = work.pop()
        for c in f0.calls():
            cn = callee_name(c)
            h = u.functions.get(cn)
            if h is not None and h.static and cn not in seen and cn != 'compare_strings':
                seen.add(cn)
                members.append(h)
                work.append(h)
    n = 0
    for fn in members:
        for a in assignments(fn):
            l = strip_casts(a['l'])
            if l.get('k') == 'mem' and 'cJSON' not in u.ty(strip_casts(l['b']).get('ty0', strip_casts(l['b'])['ty']))['s']:
                n += 1
                R.ob('LST5', fn, a, 'store %s goes into a record of the sorter\'s own' % expr_str(a)[:60], True,
                     'not a field of a tree node', key='scratch:' + l['f'])
            elif l.get('k') == 'mem':
                n += 1
                ok = l['f'] in ('next', 'prev')
                R.ob('LST5', fn, a, 'store %s touches link fields only' % expr_str(a)[:60], ok,
                     'link field %s' % l['f'] if ok else 'sorting modifies member field %s (keys/values/subtrees must stay untouched)' % l['f'],
                     key='store:' + l['f'])
            elif l.get('k') in ('un', 'idx'):
                n += 1
                # a pointer-to-link cursor (cJSON **link = &result; ... link = &x->next) designates a local or a link field
                ok = False
                why = 'sorting writes through a raw pointer'
                if l.get('k') == 'idx':
                    b_ = strip_casts(l['b'])
                    if b_.get('k') == 'ref' and b_.get('dk') == 'local' and u.ty(b_.get('ty0', b_['ty']))['c'] == 'array':
                        ok = True
                        why = 'an element of the local array %s (the sorter\'s own scratch)' % b_['n']
                inner = strip_casts(l['e']) if l.get('k') == 'un' and l['op'] == '*' else None
                if inner is not None and inner.get('k') == 'ref' and inner.get('dk') == 'local':
                    targets = [strip_casts(x['r']) for x in assignments(fn) if is_ref(x['l']) and strip_casts(x['l'])['d'] == inner['d']]
                    targets += [strip_casts(d['init']) for d in fn.locals() if d['d'] == inner['d'] and 'init' in d and not is_null_const(d['init'])]
                    targets = [t for t in targets if not is_null_const(t)]

                    def link_address(t):
                        if t.get('k') != 'un' or t['op'] != '&':
                            return False
                        x = strip_casts(t['e'])
                        return (x.get('k') == 'ref' and x.get('dk') == 'local') or (x.get('k') == 'mem' and x['f'] in ('next', 'prev'))
                    if targets and all(link_address(t) for t in targets):
                        ok = True
                        why = '%s only ever holds the address of a local or of a next/prev field' % inner['n']
                R.ob('LST5', fn, a, 'store through pointer %s' % expr_str(a)[:60], ok, why, key='rawstore:' + expr_str(l))
        for c in fn.calls():
            cn = callee_name(c)
            n += 1
            ok = cn in ('compare_strings', 'strcmp') or cn in seen
            why_ok = 'recursion / helper of the sorter / key comparator'
            if not ok and cn == 'qsort' and c.get('args'):
                a0 = strip_casts(c['args'][0])
                ok = a0.get('k') == 'ref' and a0.get('dk') == 'local' and 'cJSON *' not in u.ty(a0.get('ty0', a0['ty']))['s'].replace('struct ', '')[:8]
                why_ok = 'the C library sorts the sorter\'s own array'
            if not ok and cn in ('cJSON_malloc', 'malloc'):
                ok = True
                why_ok = 'scratch memory'
            if not ok and cn in ('cJSON_free', 'free') and c.get('args'):
                a0 = strip_casts(c['args'][0])
                ok = a0.get('k') == 'ref' and a0.get('dk') == 'local' and 'cJSON' not in u.ty(a0.get('ty0', a0['ty']))['s']
                why_ok = 'scratch memory released'
            R.ob('LST5', fn, c, 'call %s' % (cn or expr_str(c['fn'])), ok,
                 why_ok if ok else 'sorting calls %s (may allocate, release or edit nodes)' % cn,
                 key='call:%s' % cn)
    so = u.fn('sort_object')
    for c in so.calls():
        cn = callee_name(c)
        ok = cn == 'sort_list' or cn in seen
        R.ob('LST5', so, c, 'sort_object calls %s' % cn, ok, '' if ok else 'unexpected callee', key='so-call:%s' % cn)
    for a in assignments(so):
        l = strip_casts(a['l'])
        if l.get('k') == 'mem':
            ok = l['f'] in ('child', 'prev', 'next')
            R.ob('LST5', so, a, 'sort_object store %s' % expr_str(a)[:60], ok, 'container link field' if ok else
                 'sort_object edits %s' % l['f'], key='so-store:' + l['f'])
    # every internal sorter goes through sort_object (so LST1's obligation there covers them)
    for f2 in u.function_list:
        for c in f2.calls():
            if callee_name(c) == 'sort_list' and f2.name not in ('sort_list', 'sort_object') and f2.name not in seen:
                R.ob('LST5', f2, c, 'sort_list called outside sort_object', False,
                     'the caller must restore child->prev itself', key='direct-sort')
    R.floor('LST5', 'stores and calls in sort_list', n, 6)
