"""Rules specific to cJSON_Utils.c: TAB18 no narrowing of a decoded array index, ORD1 no use of a looked-up node
after the document it came from was edited."""
import re

from ..facts import (AnalysisBroken, walk, strip_casts, expr_str, is_null_const, const_val, ASSIGN_OPS, callee_name)
from ..dataflow import node_effects
from .common import all_functions, assignments, is_ref, node_containing, guarded_by, cmp_parts, region_without_edges

LOOKUP = {'get_item_from_pointer', 'cJSONUtils_GetPointer', 'cJSONUtils_GetPointerCaseSensitive'}
# calls that may unlink or release nodes anywhere below their first argument
INVALIDATORS = {'detach_path', 'overwrite_item', 'cJSON_Delete', 'merge_patch', 'apply_patch',
                'cJSONUtils_ApplyPatches', 'cJSONUtils_ApplyPatchesCaseSensitive', 'cJSONUtils_MergePatch',
                'cJSONUtils_MergePatchCaseSensitive'}


def tab18(units, R):
    """An array index decoded from a pointer string (a size_t filled in through an out-parameter) reaches the
    element walker without being converted to a narrower integer type."""
    u = units['cJSON_Utils.c']
    n = 0
    for fn in u.function_list:
        outs = set()
        for c in fn.calls():
            cn = callee_name(c)
            callee = u.functions.get(cn)
            if callee is None:
                continue
            for i, a in enumerate(c['args']):
                a0 = strip_casts(a)
                if a0.get('k') == 'un' and a0['op'] == '&' and is_ref(a0['e']) and i < len(callee.params):
                    pt = u.ty(callee.params[i]['ty'])['s']
                    if 'unsigned long *' in pt or 'size_t *' in pt:
                        outs.add(strip_casts(a0['e'])['d'])
        if not outs:
            continue
        par = fn.parents()
        for x in fn.nodes():
            if x.get('k') != 'ref' or x['d'] not in outs:
                continue
            p = par.get(x['id'])
            if p is not None and p.get('k') == 'un' and p['op'] == '&':
                continue
            n += 1
            src = u.ty(x.get('ty0', x['ty']))
            dst = u.ty(x['ty'])
            ok = True
            why = 'used as %s' % dst['s']
            if dst['c'] == 'int' and src['c'] == 'int' and dst.get('bits', 64) < src.get('bits', 64):
                ok = False
                why = 'implicitly converted from %s to %s' % (src['s'], dst['s'])
            q = p
            while q is not None and q.get('k') == 'cast':
                t = u.ty(q['ty'])
                if t['c'] == 'int' and t.get('bits', 64) < src.get('bits', 64):
                    ok = False
                    why = 'cast to %s: indices >= 2^%d alias small ones' % (t['s'], t.get('bits', 0))
                q = par.get(q['id'])
            if not ok:
                # a narrowing that only values which fit the narrower type can reach: if (index > INT_MAX) return NULL;
                nb = min([u.ty(q2['ty']).get('bits', 64) for q2 in [p] if q2 is not None and q2.get('k') == 'cast'] + [dst.get('bits', 64)])
                tnar = dst if dst.get('bits', 64) == nb else u.ty(p['ty'])
                vmax = (1 << nb) - 1 if 'unsigned' in tnar['s'] else (1 << (nb - 1)) - 1
                fcfg = fn.cfg()
                node = fcfg.node_of_expr(x['id'])

                def fits(nn, l, d=x['d'], vmax=vmax):
                    if nn.kind != 'branch' or l is None or nn.expr is None:
                        return False
                    pc = cmp_parts(nn.expr)
                    if pc is None or not is_ref(pc[0]) or strip_casts(pc[0])['d'] != d:
                        return False
                    (_e, op, c) = pc
                    if l[0] == 'T':
                        return (op == '<=' and c <= vmax) or (op == '<' and c <= vmax + 1) or (op == '==' and 0 <= c <= vmax)
                    return (op == '>' and c <= vmax) or (op == '>=' and c <= vmax + 1)
                if node is not None and guarded_by(fcfg, node.id, fits):
                    ok = True
                    why = 'narrowed to %s only after a test that the value fits (<= %d)' % (tnar['s'], vmax)
            R.ob('TAB18', fn, x, 'decoded index %s keeps its full width' % x['n'], ok, why,
                 key='index-width:%s:%s' % (x['n'], 'ok' if ok else why[:30]))
    R.floor('TAB18', 'uses of decoded array indices', n, 3)


def ord1(units, R):
    """A node obtained by resolving a pointer in a document is not used after a call that may unlink or release
    nodes of that same document (the resolved pointer may dangle, and RFC 6902 evaluates 'from' before 'path')."""
    u = units['cJSON_Utils.c']
    n = 0
    for fn in u.function_list:
        cfg = None
        lookups = []
        for a in assignments(fn):
            r = strip_casts(a['r'])
            if a['op'] == '=' and is_ref(a['l']) and r.get('k') == 'call' and callee_name(r) in LOOKUP and r['args']:
                lookups.append((a, strip_casts(a['l']), expr_str(strip_casts(r['args'][0]))))
        for d in fn.locals():
            if 'init' in d:
                r = strip_casts(d['init'])
                if r.get('k') == 'call' and callee_name(r) in LOOKUP and r['args']:
                    lookups.append((d['init'], {'d': d['d'], 'n': d['n']}, expr_str(strip_casts(r['args'][0]))))
        if not lookups:
            continue
        cfg = fn.cfg()
        for (a, var, root) in lookups:
            A = node_containing(cfg, a if 'id' in a else a)
            redefs = {node_containing(cfg, x).id for x in assignments(fn)
                      if is_ref(x['l']) and strip_casts(x['l'])['d'] == var['d'] and x is not a}
            inval = []
            for nd in cfg.nodes:
                re_ = nd.expr if nd.expr is not None else (nd.decl.get('init') if nd.decl else None)
                if re_ is None:
                    continue
                for c in walk(re_):
                    if c.get('k') == 'call' and callee_name(c) in INVALIDATORS and c['args'] and \
                            expr_str(strip_casts(c['args'][0])) == root:
                        inval.append((nd, c))
            uses = []
            for nd in cfg.nodes:
                root_e = nd.expr if nd.expr is not None else (nd.decl.get('init') if nd.decl else None)
                if root_e is None or nd.id == A.id:
                    continue
                for x in walk(root_e):
                    if x.get('k') == 'ref' and x.get('d') == var['d']:
                        # the left-hand side of a re-assignment is not a use
                        if nd.id in redefs and nd.expr is not None and nd.expr.get('k') == 'bin' and strip_casts(nd.expr['l']) is x:
                            continue
                        uses.append((nd, x))
            n += 1
            bad = None
            from_a = cfg.reachable(A.id, stop=redefs)
            for (ind, c) in inval:
                if ind.id not in from_a:
                    continue
                after = cfg.reachable(ind.id, stop=redefs | {A.id})
                for (und, x) in uses:
                    if und.id in after and und.id != ind.id:
                        bad = (c, und)
                        break
                if bad:
                    break
            R.ob('ORD1', fn, a if 'loc' in a else None, 'node %s resolved in %s is not used after %s was edited' % (var['n'], root, root),
                 bad is None, 'no unlinking/releasing call on %s between the lookup and a use' % root if bad is None else
                 '%s(%s, ...) at line %d runs between the lookup and the use at line %d: the resolved node may have been '
                 'moved or released' % (callee_name(bad[0]), root, bad[0]['loc'][0], bad[1].line), key='stale:%s' % var['n'])
    R.floor('ORD1', 'document lookups held in a local', n, 3)


def inputs_only_relinked(units, R, roots=('create_patches', 'generate_merge_patch', 'compare_json')):
    """Patch / merge-patch generation and the patch `test` comparison leave their input documents alone except for
    re-linking by sort_object: no store goes through a pointer derived from the input parameters, and input nodes are
    only handed to callees that take them as const or that are the sorter / the recursion itself."""
    u = units['cJSON_Utils.c']
    n = 0
    MAY_TAKE = {'sort_object', 'create_patches', 'generate_merge_patch', 'compare_json', 'compare_strings', 'compose_patch',
                'cJSON_IsObject', 'cJSON_IsArray', 'cJSON_IsString', 'cJSON_IsNull', 'cJSON_IsNumber'}
    for name in roots:
        fn = u.fn(name)
        ins = {p['d'] for p in fn.params if 'struct cJSON *' in u.ty(p['ty'])['s'] and p['n'] != 'patches'}
        # locals loaded from the inputs
        derived = set(ins)
        changed = True

        def fresh_value(rhs):
            # a newly built tree is not part of an input, whatever it was built from
            r0 = strip_casts(rhs)
            cn0 = callee_name(r0) if r0.get('k') == 'call' else None
            return cn0 is not None and (cn0.startswith('cJSON_Create') or cn0 in ('cJSON_Duplicate', 'generate_merge_patch') or
                                        cn0.startswith('cJSONUtils_Generate'))
        while changed:
            changed = False
            for a in assignments(fn):
                if is_ref(a['l']) and strip_casts(a['l'])['d'] not in derived and not fresh_value(a['r']):
                    for x in walk(a['r']):
                        if x.get('k') == 'ref' and x.get('d') in derived and 'cJSON' in u.ty(strip_casts(a['l'])['ty'])['s']:
                            derived.add(strip_casts(a['l'])['d'])
                            changed = True
                            break
            for d in fn.locals():
                if d['d'] not in derived and 'init' in d and 'cJSON' in u.ty(d['ty'])['s'] and not fresh_value(d['init']):
                    if any(x.get('k') == 'ref' and x.get('d') in derived for x in walk(d['init'])):
                        derived.add(d['d'])
                        changed = True
        for a in assignments(fn):
            l = strip_casts(a['l'])
            if l.get('k') in ('mem', 'idx') or (l.get('k') == 'un' and l['op'] == '*'):
                b = l
                while b.get('k') in ('mem', 'idx') or (b.get('k') == 'un' and b['op'] == '*'):
                    b = strip_casts(b.get('b') or b.get('e'))
                if b.get('k') == 'ref' and b.get('d') in derived:
                    n += 1
                    R.ob('INP', fn, a, 'no store into an input document: %s' % expr_str(a)[:50], False,
                         'generation must leave both inputs equal in value to what they were', key='store:' + expr_str(l)[:40])
        for c in fn.calls():
            cn = callee_name(c)
            for i, arg in enumerate(c['args']):
                a0 = strip_casts(arg)
                if a0.get('k') == 'ref' and a0.get('d') in derived:
                    n += 1
                    t = u.ty(arg['ty'])
                    callee = u.functions.get(cn)
                    const_param = False
                    if callee is not None and i < len(callee.params):
                        const_param = bool(u.ty(callee.params[i]['ty']).get('pointee_const'))
                    else:
                        for d in u.fdecls:
                            if d['name'] == cn and i < len(d['params']):
                                const_param = bool(u.ty(d['params'][i]['ty']).get('pointee_const'))
                    ok = const_param or cn in MAY_TAKE
                    R.ob('INP', fn, c, 'input node %s handed to %s' % (a0['n'], cn), ok,
                         'const parameter' if const_param else ('sorter/recursion/comparator' if ok else
                         '%s takes a mutable node of an input document' % cn), key='arg:%s:%s' % (cn, a0['n']))
    R.floor('INP', 'uses of input nodes examined', n, 10)


# ---- MRG: RFC 7396 structure of merge-patch application ------------------------------------------------------------

MERGE_ENTRIES = ('cJSONUtils_MergePatch', 'cJSONUtils_MergePatchCaseSensitive')
OBJECT_MEMBER_OPS = {'cJSON_AddItemToObject', 'cJSON_AddItemToObjectCS', 'cJSON_DeleteItemFromObject',
                     'cJSON_DeleteItemFromObjectCaseSensitive', 'cJSON_DetachItemFromObject',
                     'cJSON_DetachItemFromObjectCaseSensitive', 'cJSON_ReplaceItemInObject',
                     'cJSON_ReplaceItemInObjectCaseSensitive'}
MEMBER_REMOVERS = {'cJSON_DeleteItemFromObject', 'cJSON_DeleteItemFromObjectCaseSensitive'}
MEMBER_SETTERS = {'cJSON_AddItemToObject', 'cJSON_AddItemToObjectCS', 'cJSON_ReplaceItemInObject',
                  'cJSON_ReplaceItemInObjectCaseSensitive', 'cJSON_ReplaceItemViaPointer'}


def _merge_roles(u):
    """{function name: {param index: 'T' | 'P'}} for the functions that apply a merge patch: the entry points take
    (target, patch); the roles follow the arguments into static helpers (a patch-derived argument is the patch
    variable itself, one of its children or a cursor over them)."""
    roles = {}
    for e in MERGE_ENTRIES:
        if e in u.functions:
            roles[e] = {0: 'T', 1: 'P'}
    if not roles:
        raise AnalysisBroken('MRG: merge-patch entry points not found')
    changed = True
    while changed:
        changed = False
        for name in list(roles):
            fn = u.functions[name]
            var = _role_vars(u, fn, roles[name])
            for c in fn.calls():
                cn = callee_name(c)
                h = u.functions.get(cn)
                if h is None or not h.static:
                    continue
                for i, a in enumerate(c['args']):
                    a0 = strip_casts(a)
                    root = _root_var(a0)
                    if root is not None and root in var and i < len(h.params) and 'cJSON' in u.ty(h.params[i]['ty'])['s']:
                        r = var[root]
                        if roles.setdefault(cn, {}).get(i) != r:
                            if i in roles[cn] and roles[cn][i] != r:
                                raise AnalysisBroken('MRG: %s receives both a target and a patch as parameter %d' % (cn, i))
                            roles[cn][i] = r
                            changed = True
    return roles


def _root_var(e):
    """decl id of the variable an expression like v, v->child, v->next->... starts from"""
    e = strip_casts(e)
    while e.get('k') == 'mem' and e['f'] in ('child', 'next', 'prev'):
        e = strip_casts(e['b'])
    if e.get('k') == 'ref' and e.get('dk') in ('local', 'param'):
        return e['d']
    return None


def _role_vars(u, fn, proles):
    """decl id -> 'T' | 'P' for parameters with a role and the locals that only ever hold nodes reached from them"""
    var = {}
    for i, r in proles.items():
        if i < len(fn.params):
            var[fn.params[i]['d']] = r
    changed = True
    while changed:
        changed = False
        srcs = {}
        for d in fn.locals():
            if 'init' in d and not is_null_const(d['init']):
                srcs.setdefault(d['d'], []).append(d['init'])
        for a in assignments(fn):
            if is_ref(a['l']) and a['op'] == '=' and not is_null_const(a['r']):
                srcs.setdefault(strip_casts(a['l'])['d'], []).append(a['r'])
        for d, rs in srcs.items():
            if d in var:
                continue
            rr = set()
            for r in rs:
                root = _root_var(r)
                r0 = strip_casts(r)
                if root == d:
                    continue           # a cursor stepping along its own chain
                if root is not None and root in var and var[root] == 'P':
                    rr.add('P')
                elif r0.get('k') == 'cond':
                    # cJSON_ArrayForEach: (x != NULL) ? x->child : NULL
                    roots = {_root_var(arm) for arm in (r0['t'], r0['e']) if not is_null_const(arm)}
                    if len(roots) == 1 and next(iter(roots)) in var and var[next(iter(roots))] == 'P':
                        rr.add('P')
                    else:
                        rr.add('?')
                else:
                    rr.add('?')
            if rr == {'P'}:
                var[d] = 'P'
                changed = True
    return var


def _is_kind_test(e, fname):
    """(decl id of v) when e is cJSON_Is<kind>(v)"""
    e = strip_casts(e)
    if e.get('k') == 'call' and callee_name(e) == fname and e['args']:
        a = strip_casts(e['args'][0])
        if a.get('k') == 'ref':
            return a['d']
    return None


def mrg(units, R):
    """RFC 7396 as necessary conditions on the code that applies a merge patch:
    MRG1  a value taken from the patch is copied verbatim (cJSON_Duplicate) only where it is known not to be an object -
          objects have to be merged member by member, or their null members would be copied instead of deleting;
    MRG2  a member of the target is removed only under cJSON_IsNull of the patch member, and set only when it is not null;
    MRG3  members are looked up, added, removed or replaced only on a target that is known to be an object (tested, or
          freshly created after a non-object target was released); helpers that rely on their caller for this are
          checked at their call sites."""
    from .common import guarded_by
    from ..dataflow import solve
    u = units['cJSON_Utils.c']
    roles = _merge_roles(u)
    needs_object = {}      # helper name -> set of param indices used as object without establishing it
    for _pass in range(6):
        before = {k: set(v) for k, v in needs_object.items()}
        tmp = type(R)(config=R.config)
        _mrg_pass(u, roles, needs_object, tmp)
        if needs_object == before:
            break
    _mrg_pass(u, roles, needs_object, R)
    _mrg_keyed(u, roles, R)


_KEYED_LINKERS = {'cJSON_AddItemToObject': 1, 'cJSON_AddItemToObjectCS': 1, 'cJSON_ReplaceItemInObject': 1,
                  'cJSON_ReplaceItemInObjectCaseSensitive': 1}
_UNKEYED_LINKERS = {'cJSON_ReplaceItemViaPointer', 'cJSON_AddItemToArray', 'cJSON_InsertItemInArray', 'cJSON_ReplaceItemInArray',
                    'cJSON_AddItemReferenceToArray'}


def _mrg_keyed(u, roles, R):
    """MRG4  what is put into the target object goes in under the name of the patch member it was made from: the target of a
    merge is an object (MRG3), and a node linked into an object by a call that does not give it a name (replace via pointer,
    the array inserters) is a member without a key - it cannot be found again, and lookups stop at it."""
    n = 0
    for name, rl in sorted(roles.items()):
        fn = u.functions[name]
        var = _role_vars(u, fn, rl)
        for c in fn.calls():
            cn = callee_name(c)
            if cn not in _KEYED_LINKERS and cn not in _UNKEYED_LINKERS:
                continue
            if not c['args']:
                continue
            root = _root_var(strip_casts(c['args'][0]))
            if root is None or var.get(root) != 'T':
                continue
            n += 1
            if cn in _UNKEYED_LINKERS:
                R.ob('MRG4', fn, c, 'a value enters the target under the patch member\'s name', False,
                     '%s links a node into the target object without giving it a name: the member loses its key' % cn,
                     key='keyed:%s' % expr_str(c)[:40])
                continue
            from .common import field_cache, expand_cached
            key = strip_casts(expand_cached(c['args'][_KEYED_LINKERS[cn]], field_cache(u, fn, 'string')))     # const char *key = patch_child->string
            kroot = _root_var(strip_casts(key['b'])) if key.get('k') == 'mem' and key['f'] == 'string' else None
            ok = kroot is not None and var.get(kroot) == 'P'
            R.ob('MRG4', fn, c, 'a value enters the target under the patch member\'s name', ok,
                 'named %s' % expr_str(key)[:40] if ok else 'the name %s is not the key of a patch member' % expr_str(key)[:40],
                 key='keyed:%s' % expr_str(c)[:40])
    R.floor('MRG4', 'insertions into the merge target', n, 1)


def _family_name(c):
    """callee name; for a dispatch through a constant function table, one of its targets when they all are member removers,
    all member setters, or all member look-ups (the case-sensitive and the case-folding variant of one operation)"""
    cn = callee_name(c)
    if cn is not None or not c.get('targets'):
        return cn
    tg = c['targets']
    for fam in (MEMBER_REMOVERS, MEMBER_SETTERS, OBJECT_MEMBER_OPS,
                {'get_object_item', 'cJSON_GetObjectItem', 'cJSON_GetObjectItemCaseSensitive'}):
        if all(t in fam for t in tg):
            return tg[0]
    return None


def _mrg_pass(u, roles, needs_object, R):
    from .common import guarded_by
    from ..dataflow import solve
    n1 = n2 = n3 = 0
    results3 = []
    unsatisfied = set()
    order = sorted(roles, key=lambda n: 0 if u.functions[n].static else 1)
    for name in order:
        fn = u.functions[name]
        cfg = fn.cfg()
        var = _role_vars(u, fn, roles[name])
        names = {d['d']: d['n'] for d in list(fn.params) + list(fn.locals())}
        # MRG2
        for c in fn.calls():
            cn = _family_name(c)
            if cn not in MEMBER_REMOVERS and cn not in MEMBER_SETTERS:
                continue
            if not c['args'] or _root_var(c['args'][0]) is None or var.get(_root_var(c['args'][0])) == 'P':
                continue
            # the key argument names a patch member: pc->string
            pc = None
            for a in c['args'][1:]:
                a0 = strip_casts(a)
                if a0.get('k') == 'ref' and a0.get('dk') == 'local':
                    # a local that only ever holds the key of one patch member
                    srcs = [strip_casts(d['init']) for d in fn.locals() if d['d'] == a0['d'] and 'init' in d]
                    srcs += [strip_casts(x['r']) for x in assignments(fn) if is_ref(x['l']) and strip_casts(x['l'])['d'] == a0['d']]
                    if srcs and all(x.get('k') == 'mem' and x['f'] == 'string' for x in srcs) and \
                            len({expr_str(x) for x in srcs}) == 1:
                        a0 = srcs[0]
                if a0.get('k') == 'mem' and a0['f'] == 'string' and is_ref(a0['b']) and var.get(strip_casts(a0['b'])['d']) == 'P':
                    pc = strip_casts(a0['b'])
            if pc is None:
                continue
            n2 += 1
            node = node_containing(cfg, c)
            want = 'T' if cn in MEMBER_REMOVERS else 'F'
            ok = guarded_by(cfg, node.id, lambda nn, l: nn.kind == 'branch' and l is not None and l[0] == want and
                            _is_kind_test(nn.expr, 'cJSON_IsNull') == pc['d'])
            R.ob('MRG2', fn, c, ('member %s->string is removed only when the patch value is null' if want == 'T' else
                                 'member %s->string is set only when the patch value is not null') % pc['n'], ok,
                 'behind the %s edge of cJSON_IsNull(%s)' % ('true' if want == 'T' else 'false', pc['n']) if ok else
                 '%s is reachable without cJSON_IsNull(%s) being %s' % (cn, pc['n'], 'true' if want == 'T' else 'false'),
                 key='null:%s:%s' % (cn, pc['n']))
        # MRG3: must-dataflow "v is an object"
        tvars = {d for d, r in var.items() if r == 'T'}
        assumed = frozenset(fn.params[i]['d'] for i in needs_object.get(name, set()))

        def transfer(node, st):
            st = set(st)
            for ev in node_effects(node):
                if ev.kind in ('store', 'declinit'):
                    if ev.kind == 'declinit':
                        d, rhs = ev.lhs['d'], ev.rhs
                    else:
                        l = strip_casts(ev.lhs)
                        if l.get('k') != 'ref':
                            continue
                        d, rhs = l['d'], (ev.node['r'] if ev.node['op'] == '=' else None)
                    st.discard(d)
                    if rhs is not None:
                        r0 = strip_casts(rhs)
                        if r0.get('k') == 'call' and callee_name(r0) == 'cJSON_CreateObject':
                            st.add(d)
                        elif r0.get('k') == 'ref' and r0['d'] in st:
                            st.add(d)
            return frozenset(st)

        def refine(node, label, st):
            if label[0] in ('T', 'F') and node.kind == 'branch':
                v = _is_kind_test(label[1], 'cJSON_IsObject')
                if v is not None and label[0] == 'T':
                    return st | {v}
            return st
        states = solve(cfg, assumed, transfer, refine, lambda a, b: a & b)
        # MRG1
        for c in fn.calls():
            if callee_name(c) != 'cJSON_Duplicate' or not c['args']:
                continue
            a = strip_casts(c['args'][0])
            if not (a.get('k') == 'ref' and var.get(a['d']) == 'P'):
                continue
            n1 += 1
            node = node_containing(cfg, c)
            v = a['d']
            # edges on which a variable known to be an object tests as a non-object cannot be taken (allocation failure is
            # not modelled for cJSON_Utils.c)
            ok = guarded_by(cfg, node.id, lambda nn, l: nn.kind == 'branch' and l is not None and l[0] == 'F' and
                            (_is_kind_test(nn.expr, 'cJSON_IsObject') == v or
                             (_is_kind_test(nn.expr, 'cJSON_IsObject') is not None and
                              _is_kind_test(nn.expr, 'cJSON_IsObject') in (states.get(nn.id) or ()))))
            pruned = None
            if not ok:
                # the copy of an object patch is fine when its null members are taken out again before anyone sees it: the copy is
                # kept in a local that is handed to a pruner (judged on its own: MRG5) and only then returned or linked
                par = fn.parents().get(c['id'])
                while par is not None and par.get('k') == 'cast':
                    par = fn.parents().get(par['id'])
                dest = None
                if par is not None and par.get('k') == 'bin' and par['op'] == '=' and is_ref(par['l']):
                    dest = strip_casts(par['l'])['d']
                else:
                    for d_ in fn.locals():
                        if 'init' in d_ and any(x is c for x in walk(d_['init'])):
                            dest = d_['d']
                if dest is not None:
                    pruners = _null_pruners(u)
                    for c2 in fn.calls():
                        if callee_name(c2) in pruners and c2.get('args') and strip_casts(c2['args'][0]).get('k') == 'ref' and \
                                strip_casts(c2['args'][0])['d'] == dest:
                            pn_ = node_containing(cfg, c2)
                            # every use of the copy other than the NULL test lies behind the pruner
                            uses = [m for m in cfg.nodes if m.id != pn_.id and m.id != node.id and m.kind in ('stmt', 'return', 'decl') and
                                    any(x.get('k') == 'ref' and x.get('d') == dest for x in walk(
                                        m.expr if m.expr is not None else (m.decl.get('init') if m.decl else {}) or {}))]
                            # what can be reached from the copy without passing the pruner, on paths where the copy is not NULL
                            seen_ = set()
                            work_ = [node.id]
                            while work_:
                                x_ = work_.pop()
                                for (y_, l_) in cfg.succ[x_]:
                                    nn_ = cfg.nodes[x_]
                                    if nn_.kind == 'branch' and l_ is not None and l_[0] in ('T', 'F') and nn_.expr is not None:
                                        ref_, isnull_ = _null_edge_of(nn_.expr)
                                        if ref_ is not None and ref_.get('d') == dest and l_[0] == isnull_:
                                            continue
                                    if y_ == pn_.id or y_ in seen_:
                                        continue
                                    seen_.add(y_)
                                    work_.append(y_)
                            if all(m.id in cfg.reachable(pn_.id) and m.id not in seen_ for m in uses):
                                pruned = callee_name(c2)
            if pruned:
                ok = True
            R.ob('MRG1', fn, c, 'patch value %s is copied verbatim only when it is not an object' % a['n'], ok,
                 ('the copy is handed to %s, which takes the null members out again, before it is used' % pruned) if pruned else
                 'reachable only through the false edge of cJSON_IsObject(%s)' % a['n'] if ok else
                 'cJSON_Duplicate(%s) can be reached while %s is an object: its null members would be copied into the result '
                 'instead of deleting (RFC 7396: an object patch is merged member by member)' % (a['n'], a['n']),
                 key='dup:%s' % a['n'])
        for c in fn.calls():
            cn = _family_name(c)
            if not c['args']:
                continue
            a = strip_casts(c['args'][0])
            node = node_containing(cfg, c)
            st = states.get(node.id)
            if st is None:
                continue
            if (cn in OBJECT_MEMBER_OPS or cn in ('get_object_item', 'cJSON_GetObjectItem', 'cJSON_GetObjectItemCaseSensitive')) \
                    and a.get('k') == 'ref' and (a['d'] in tvars or _derived_from_target(fn, a['d'], tvars)):
                n3 += 1
                ok = a['d'] in st
                if ok and a['d'] in assumed and not _established_locally(cfg, states, node, a['d'], assumed):
                    results3.append((fn, c, cn, a, None))
                    continue
                if not ok and fn.static and a.get('dk') == 'param' and not any(
                        x.get('k') == 'bin' and x['op'] in ASSIGN_OPS and is_ref(x['l']) and strip_casts(x['l'])['d'] == a['d'] for x in fn.nodes()):
                    # a helper working on its parameter: the obligation moves to the call sites
                    idx = [i for i, p in enumerate(fn.params) if p['d'] == a['d']][0]
                    if idx not in needs_object.get(name, set()):
                        needs_object.setdefault(name, set()).add(idx)
                    results3.append((fn, c, cn, a, None))
                    continue
                results3.append((fn, c, cn, a, ok))
            h = u.functions.get(cn)
            if h is not None and cn in needs_object:
                for idx in needs_object[cn]:
                    if idx < len(c['args']):
                        x = strip_casts(c['args'][idx])
                        n3 += 1
                        ok = x.get('k') == 'ref' and x['d'] in st
                        if not ok and not fn.static:
                            # a public entry point hands its own parameter on: it is the helper that has to make it an object
                            unsatisfied.add((cn, idx))
                            continue
                        R.ob('MRG3', fn, c, 'helper %s works on an object: argument %s is known to be one' % (cn, expr_str(x)[:30]), ok,
                             'tested with cJSON_IsObject or freshly created on every path' if ok else
                             '%s can be something other than an object here (RFC 7396: a non-object target is replaced by an empty object first)'
                             % expr_str(x)[:30], key='objarg:%s:%s' % (cn, expr_str(x)[:30]))
    for (fn, c, cn, a, ok) in results3:
        if ok is None:
            idx = [i for i, p in enumerate(fn.params) if p['d'] == a['d']][0]
            bad = (fn.name, idx) in unsatisfied
            R.ob('MRG3', fn, c, 'member operation %s on parameter %s' % (cn, a['n']), not bad,
                 'the helper relies on its callers: checked at the call sites' if not bad else
                 '%s comes straight from the API and can be a non-object here (RFC 7396: a non-object target is replaced by an '
                 'empty object first)' % a['n'], key='objop:%s:%s' % (cn, a['n']))
        else:
            R.ob('MRG3', fn, c, 'member operation %s only on a target known to be an object' % cn, ok,
                 '%s was tested with cJSON_IsObject or freshly created on every path' % a['n'] if ok else
                 '%s can be a non-object here (RFC 7396: a non-object target is replaced by an empty object first)' % a['n'],
                 key='objop:%s:%s' % (cn, a['n']))
    R.floor('MRG1', 'verbatim copies of patch values', n1, 1)
    R.floor('MRG2', 'member removals / settings keyed by a patch member', n2, 2)
    R.floor('MRG3', 'member operations on the target', n3, 2)


def _established_locally(cfg, states, node, d, assumed):
    """the fact "d is an object" at node does not rest on the assumption made for the parameter: it also holds when the
    analysis starts without it (approximated: some branch node testing cJSON_IsObject(d) dominates the node)"""
    for b in cfg.nodes:
        if b.kind == 'branch' and _is_kind_test(b.expr, 'cJSON_IsObject') == d and cfg.dominates(b.id, node.id):
            return True
    return False


def _derived_from_target(fn, d, tvars):
    """local d is (only) assigned from a lookup in a target-role variable or a fresh object"""
    srcs = []
    for x in fn.locals():
        if x['d'] == d and 'init' in x and not is_null_const(x['init']):
            srcs.append(x['init'])
    for a in assignments(fn):
        if is_ref(a['l']) and strip_casts(a['l'])['d'] == d and not is_null_const(a['r']):
            srcs.append(a['r'])
    if not srcs:
        return False
    for r in srcs:
        r0 = strip_casts(r)
        if r0.get('k') == 'call':
            cn = callee_name(r0)
            if cn == 'cJSON_CreateObject':
                continue
            if cn in ('get_object_item', 'cJSON_GetObjectItem', 'cJSON_GetObjectItemCaseSensitive', 'cJSON_DetachItemFromObject',
                      'cJSON_DetachItemFromObjectCaseSensitive') and r0['args'] and _root_var(r0['args'][0]) in tvars:
                continue
        return False
    return True


# ---- ESC1: member names reach pointer text only through the RFC 6901 encoder -----------------------------------------

RAW_TEXT_SINKS = {'sprintf': 'fmt', 'strcat': 1, 'strcpy': 1, 'memcpy': 1, 'strncpy': 1, 'strncat': 1}


def _raw_sink_args(call):
    """argument expressions of a libc call whose bytes are copied verbatim into the destination text"""
    cn = callee_name(call)
    if cn not in RAW_TEXT_SINKS:
        return []
    if cn == 'sprintf':
        from .out import parse_format
        fmt = strip_casts(call['args'][1]) if len(call['args']) > 1 else {}
        if fmt.get('k') != 'str':
            return list(call['args'][2:])
        out = []
        ai = 2
        for piece in parse_format(fmt['bytes']):
            if piece[0] == 'lit':
                continue
            if piece[1] == 's' and ai < len(call['args']):
                out.append(call['args'][ai])
            ai += 1
        return out
    i = RAW_TEXT_SINKS[cn]
    return [call['args'][i]] if i < len(call['args']) else []


def esc1(units, R):
    """A member name (X->string of a node) becomes part of a JSON pointer only through encode_string_as_pointer: it is
    never an argument that sprintf("%s") / strcat / strcpy / memcpy copy verbatim, neither directly nor through a
    parameter of a helper that does so ('/' and '~' in the name would otherwise change which location the pointer names)."""
    u = units['cJSON_Utils.c']
    # parameters of Utils functions that end up copied verbatim
    raw = {}
    changed = True
    ENCODERS = ('encode_string_as_pointer', 'pointer_encoded_length')      # what they write per byte is TAB9's business
    while changed:
        changed = False
        for fn in u.function_list:
            if fn.name in ENCODERS:
                continue
            pidx = {p['d']: i for i, p in enumerate(fn.params)}
            for c in fn.calls():
                cn = callee_name(c)
                sinks = list(_raw_sink_args(c))
                if cn in raw:
                    sinks += [c['args'][i] for i in raw[cn] if i < len(c['args'])]
                for a in sinks:
                    a0 = strip_casts(a)
                    if a0.get('k') == 'ref' and a0.get('d') in pidx:
                        if pidx[a0['d']] not in raw.setdefault(fn.name, set()):
                            raw[fn.name].add(pidx[a0['d']])
                            changed = True
    n = 0
    for fn in u.function_list:
        # key-valued expressions: X->string of a node, or a local that only ever holds one
        keylocals = set()
        for d in fn.locals():
            srcs = [strip_casts(d['init'])] if 'init' in d and not is_null_const(d['init']) else []
            srcs += [strip_casts(a['r']) for a in assignments(fn) if is_ref(a['l']) and strip_casts(a['l'])['d'] == d['d'] and not is_null_const(a['r'])]
            if srcs and all(x.get('k') == 'mem' and x['f'] == 'string' and 'cJSON' in u.ty(strip_casts(x['b'])['ty'])['s'] for x in srcs):
                keylocals.add(d['d'])

        def is_key(e):
            e = strip_casts(e)
            if e.get('k') == 'mem' and e['f'] == 'string' and 'cJSON' in u.ty(strip_casts(e['b'])['ty'])['s']:
                return True
            return e.get('k') == 'ref' and e.get('d') in keylocals
        for c in fn.calls():
            cn = callee_name(c)
            sinks = [(a, 'copied verbatim by %s' % cn) for a in _raw_sink_args(c)]
            if cn in raw:
                sinks += [(c['args'][i], 'parameter %d of %s, which copies it verbatim into the text it builds' % (i + 1, cn))
                          for i in raw[cn] if i < len(c['args'])]
            for (a, how) in sinks:
                if is_key(a):
                    n += 1
                    R.ob('ESC1', fn, c, 'member name %s reaches pointer text only through the encoder' % expr_str(strip_casts(a))[:40], False,
                         '%s is %s: a "/" or "~" in the name is not escaped (RFC 6901 section 3)' % (expr_str(strip_casts(a))[:40], how),
                         key='rawkey:%s:%s' % (cn, expr_str(strip_casts(a))[:40]))
            if cn in ('encode_string_as_pointer', 'pointer_encoded_length'):
                for a in c['args']:
                    if is_key(a):
                        n += 1
                        R.ob('ESC1', fn, c, 'member name %s reaches pointer text only through the encoder' % expr_str(strip_casts(a))[:40], True,
                             'passed to %s' % cn, key='enc:%s:%s' % (cn, expr_str(strip_casts(a))[:40]))
            elif cn in u.functions:
                for i, a in enumerate(c['args']):
                    if i in raw.get(cn, ()):
                        continue
                    if is_key(a) and _param_reaches_encoder(u, u.functions[cn], i):
                        n += 1
                        R.ob('ESC1', fn, c, 'member name %s reaches pointer text only through the encoder' % expr_str(strip_casts(a))[:40], True,
                             '%s hands it to the encoder' % cn, key='encvia:%s:%s' % (cn, expr_str(strip_casts(a))[:40]))
    R.floor('ESC1', 'member names flowing into pointer text', n, 2)


def _param_reaches_encoder(u, h, i, depth=0):
    if i >= len(h.params) or depth > 3:
        return False
    d = h.params[i]['d']
    for c in h.calls():
        cn = callee_name(c)
        for j, a in enumerate(c['args']):
            a0 = strip_casts(a)
            if a0.get('k') == 'ref' and a0.get('d') == d:
                if cn in ('encode_string_as_pointer', 'pointer_encoded_length'):
                    return True
                if cn in u.functions and _param_reaches_encoder(u, u.functions[cn], j, depth + 1):
                    return True
    return False


# ---- PFX1: prefix tests between pointer texts end on a token boundary ------------------------------------------------

def pfx1(units, R):
    """A JSON pointer P designates something inside the location C only if P starts with C *and continues with '/'*
    ("/ab" is not inside "/a").  Every strncmp/memcmp of two strings over the length of one of them that can lead to a
    non-zero result of its function must therefore be accompanied by a test of the next byte against '/'."""
    from .common import guarded_by, cmp_parts
    u = units['cJSON_Utils.c']
    n = 0
    for fn in u.function_list:
        single = {}
        for d in fn.locals():
            if 'init' in d:
                single[d['d']] = [d['init']]
        for a in assignments(fn):
            if is_ref(a['l']):
                single.setdefault(strip_casts(a['l'])['d'], []).append(a['r'])

        def strlen_of(e):
            """expr_str of X when e is strlen(X) (possibly through a local assigned once)"""
            e = strip_casts(e)
            if e.get('k') == 'ref' and len(single.get(e.get('d'), [])) == 1:
                e = strip_casts(single[e['d']][0])
            if e.get('k') == 'call' and callee_name(e) == 'strlen' and e['args']:
                return expr_str(strip_casts(e['args'][0]))
            return None
        for c in fn.calls():
            if callee_name(c) not in ('strncmp', 'memcmp') or len(c['args']) != 3:
                continue
            a0, a1 = expr_str(strip_casts(c['args'][0])), expr_str(strip_casts(c['args'][1]))
            sl = strlen_of(c['args'][2])
            if sl is None or sl not in (a0, a1) or a0 == a1:
                continue
            if strip_casts(c['args'][0]).get('k') == 'str' or strip_casts(c['args'][1]).get('k') == 'str':
                continue          # comparison with a literal keyword, not between two pointers
            longer = a1 if sl == a0 else a0
            nexpr = expr_str(strip_casts(c['args'][2]))
            n += 1
            cfg = fn.cfg()

            def boundary(nn, l):
                """edge on which longer[n] == '/' holds"""
                if nn.kind != 'branch' or l is None:
                    return False
                p = cmp_parts(nn.expr)
                if p is None or p[2] != ord('/') or p[1] not in ('==', '!='):
                    return False
                x = strip_casts(p[0])
                if x.get('k') != 'idx' or expr_str(strip_casts(x['b'])) != longer or expr_str(strip_casts(x['i'])) != nexpr:
                    return False
                return (p[1] == '==') == (l[0] == 'T')
            bad = None
            for r in cfg.returns():
                if r.expr is None or const_val(r.expr) == 0:
                    continue
                e = strip_casts(r.expr)
                p = cmp_parts(e)
                direct = p is not None and p[2] == ord('/') and p[1] == '==' and strip_casts(p[0]).get('k') == 'idx' and \
                    expr_str(strip_casts(strip_casts(p[0])['b'])) == longer and expr_str(strip_casts(strip_casts(p[0])['i'])) == nexpr
                if direct or guarded_by(cfg, r.id, boundary):
                    continue
                bad = r
                break
            R.ob('PFX1', fn, c, 'prefix test of %s against %s also looks at the byte after the prefix' % (longer, sl), bad is None,
                 'every non-zero result lies behind %s[%s] == \'/\'' % (longer, nexpr) if bad is None else
                 'the result at line %d can be non-zero when %s merely starts with the same characters as %s ("/ab" vs "/a"): the byte '
                 'after the prefix is not compared with \'/\'' % (bad.line, longer, sl), key='prefix:%s:%s' % (longer, sl))
    R.note('PFX1: %d prefix comparison(s) between pointer texts' % n)


# ---- GEN1: the generator drops no difference for reasons outside the two documents ----------------------------------------

def _range_decides(u, e):
    """True / False when the comparison e has that value for every value of its (unsigned) operand's type, else None"""
    e = strip_casts(e)
    if e.get('k') != 'bin' or e['op'] not in ('<', '<=', '>', '>='):
        return None
    for (x, c, flip) in ((e['l'], e['r'], False), (e['r'], e['l'], True)):
        v = const_val(c)
        x0 = strip_casts(x)
        if v is None or const_val(x) is not None:
            continue
        t = u.ty(x0.get('ty0', x0.get('ty')))
        if t['c'] != 'int' or not t.get('unsigned') or not t.get('bits'):
            continue
        lo, hi = 0, (1 << t['bits']) - 1
        op = e['op']
        if flip:
            op = {'<': '>', '<=': '>=', '>': '<', '>=': '<='}[op]
        if v < 0:
            v += 1 << 64
        res = {'>': (lo > v, hi > v), '>=': (lo >= v, hi >= v), '<': (lo < v, hi < v), '<=': (lo <= v, hi <= v)}[op]
        if res[0] == res[1]:
            return res[0]
    return None


def _null_edge_of(e):
    """(ref, label) when the atomic condition e tests a plain variable against NULL: label is the edge on which it IS NULL."""
    e = strip_casts(e)
    neg = False
    while e.get('k') == 'un' and e['op'] == '!':
        neg = not neg
        e = strip_casts(e['e'])
    if e.get('k') == 'ref':
        return e, ('T' if neg else 'F')
    if e.get('k') == 'bin' and e['op'] in ('==', '!='):
        for (x, y) in ((e['l'], e['r']), (e['r'], e['l'])):
            if is_null_const(y) and strip_casts(x).get('k') == 'ref':
                isnull = 'T' if e['op'] == '==' else 'F'
                if neg:
                    isnull = 'F' if isnull == 'T' else 'T'
                return strip_casts(x), isnull
    return None, None


def _fresh_pointer_locals(u, h):
    """Pointer locals of h whose every definition is a call result or NULL, at least one a call: fresh allocations."""
    fresh = set()
    for d in h.locals():
        srcs = [d['init']] if 'init' in d else []
        srcs += [a['r'] for a in assignments(h) if strip_casts(a['l']).get('k') == 'ref' and strip_casts(a['l'])['d'] == d['d']]
        if srcs and u.ty(d['ty'])['c'] == 'ptr' and all(strip_casts(s).get('k') == 'call' or is_null_const(s) or strip_casts(s).get('null') for s in srcs) \
                and any(strip_casts(s).get('k') == 'call' for s in srcs):
            fresh.add(d['d'])
    return fresh


def _refuses_only_without_memory(u, h, depth=0):
    """True when the static helper h returns false only on paths that pass the NULL edge of a fresh allocation
    (or the refusing edge of another helper of the same kind): its refusal says that memory ran out, nothing else.
    A comparison the type's range settles does not count as a way to refuse."""
    if depth > 3 or h is None or h.body is None:
        return False
    cfg = h.cfg()
    fresh = _fresh_pointer_locals(u, h)
    zero_returns = [m.id for m in cfg.nodes if m.kind == 'return' and m.expr is not None and const_val(m.expr) == 0]
    other = [m for m in cfg.nodes if m.kind == 'return' and m.expr is not None and const_val(m.expr) is None]
    if other or not zero_returns or not fresh and not any(c for c in walk(h.body) if c.get('k') == 'call'):
        return False

    def out_of_memory(n, label):
        if n.kind != 'branch' or label is None or label[0] not in ('T', 'F'):
            return False
        e = strip_casts(n.expr)
        if _range_decides(u, e) == (label[0] != 'T'):
            return True                     # this edge is never taken
        ref, isnull = _null_edge_of(e)
        if ref is not None and ref.get('d') in fresh:
            return label[0] == isnull
        neg = False
        while e.get('k') == 'un' and e['op'] == '!':
            neg = not neg
            e = strip_casts(e['e'])
        if e.get('k') == 'call':
            g = u.functions.get(callee_name(e))
            if g is not None and g is not h and _refuses_only_without_memory(u, g, depth + 1):
                return label[0] == ('T' if neg else 'F')
        return False
    live = region_without_edges(cfg, out_of_memory)
    return not any(z in live for z in zero_returns)


def gen1(units, R):
    """create_patches (the self-recursive function the GeneratePatches entry points hand their fresh array to): a branch whose
    condition is not computed from the two documents - not a parameter `from`/`to`, nothing assigned from them - and is not the
    NULL test of a fresh allocation, must not have an edge from which the function can only leave without emitting (no call that
    receives the patch array) while the other edge can still emit: such a branch drops differences for a reason that is not in
    the documents (a depth budget, a flag, a counter)."""
    u = units['cJSON_Utils.c']
    entries = [f for f in u.function_list if f.name in ('cJSONUtils_GeneratePatches', 'cJSONUtils_GeneratePatchesCaseSensitive')]
    if not entries:
        raise AnalysisBroken('GEN1: patch generation entry points not found')
    n = 0
    gens = {}
    work = [(ent, [p['d'] for p in ent.params[:2]]) for ent in entries]
    visited = set()
    while work:
        F, docs = work.pop()
        if F.name in visited:
            continue
        visited.add(F.name)
        for c in F.calls():
            h = u.functions.get(callee_name(c))
            if h is None or not h.static or h.body is None:
                continue
            roles = {}
            for p, a in zip(h.params, c['args']):
                a0 = strip_casts(a)
                if a0.get('k') == 'ref' and a0.get('d') in docs:
                    roles[p['d']] = 'doc'
                elif a0.get('k') == 'ref' and a0.get('dk') == 'local' and u.ty(p['ty'])['c'] == 'ptr':
                    roles[p['d']] = 'patches'
            if list(roles.values()).count('doc') != 2:
                continue
            if any(callee_name(x) == h.name for x in h.calls()):
                if 'patches' in roles.values():
                    gens[h.name] = (h, roles)
            else:
                # a helper between the entry points and the generator (shared body of the two entry points)
                work.append((h, [d for d, r in roles.items() if r == 'doc']))
    if not gens:
        raise AnalysisBroken('GEN1: no recursive generator receives the two documents and the patch array')
    for (h, roles) in gens.values():
        cfg = h.cfg()
        patches = {d for d, r in roles.items() if r == 'patches'}
        tainted = {d for d, r in roles.items() if r == 'doc'}
        fresh = set()
        changed = True
        while changed:
            changed = False
            pairs = [(strip_casts(a['l']), a['r']) for a in assignments(h) if strip_casts(a['l']).get('k') == 'ref']
            pairs += [({'d': d['d']}, d['init']) for d in h.locals() if 'init' in d]
            for l, r in pairs:
                if l['d'] in tainted:
                    continue
                if any(x.get('k') == 'ref' and x.get('d') in tainted for x in walk(r)):
                    tainted.add(l['d'])
                    changed = True
        for d in h.locals():
            srcs = [d['init']] if 'init' in d else []
            srcs += [a['r'] for a in assignments(h) if strip_casts(a['l']).get('k') == 'ref' and strip_casts(a['l'])['d'] == d['d']]
            if srcs and u.ty(d['ty'])['c'] == 'ptr' and all(strip_casts(s).get('k') == 'call' or is_null_const(s) or strip_casts(s).get('null') for s in srcs) \
                    and any(strip_casts(s).get('k') == 'call' for s in srcs):
                fresh.add(d['d'])
        emit_nodes = set()
        for m in cfg.nodes:
            root = m.expr if m.expr is not None else (m.decl.get('init') if m.kind == 'decl' and m.decl else None)
            if root is None:
                continue
            for c in walk(root):
                if c.get('k') == 'call' and any(x.get('k') == 'ref' and x.get('d') in patches for a in c['args'] for x in walk(a)):
                    emit_nodes.add(m.id)
        if not emit_nodes:
            raise AnalysisBroken('GEN1: %s emits nothing' % h.name)
        can_emit = set()
        for e in emit_nodes:
            can_emit |= cfg.reachable(e, forward=False) | {e}
        for m in cfg.nodes:
            if m.kind != 'branch':
                continue
            e = strip_casts(m.expr)
            refs = [x for x in walk(e) if x.get('k') == 'ref' and x.get('dk') in ('local', 'param')]
            if any(x['d'] in tainted for x in refs):
                continue
            n += 1
            if refs and all(x['d'] in fresh for x in refs):
                R.ob('GEN1', h, e, 'branch on %s is the NULL test of a fresh allocation' % expr_str(e)[:50], True, 'allocation failure', key='alloc:%s' % expr_str(e)[:40])
                continue
            # a defensive NULL test of a pointer parameter that the function never assigns: what callers pass is their business
            # (every call site hands over a string literal, a buffer it just filled or its own parameter), not a budget
            e1 = e
            while e1.get('k') == 'un' and e1['op'] == '!':
                e1 = strip_casts(e1['e'])
            tested = None
            if e1.get('k') == 'ref':
                tested = e1
            elif e1.get('k') == 'bin' and e1['op'] in ('==', '!='):
                for (x, y) in ((e1['l'], e1['r']), (e1['r'], e1['l'])):
                    if is_null_const(y) and strip_casts(x).get('k') == 'ref':
                        tested = strip_casts(x)
            if tested is not None and tested.get('dk') == 'param' and u.ty(tested.get('ty0', tested['ty']))['c'] == 'ptr' and \
                    not any(strip_casts(a['l']).get('k') == 'ref' and strip_casts(a['l'])['d'] == tested['d'] for a in assignments(h)):
                R.ob('GEN1', h, e, 'branch on %s is a defensive NULL test of a parameter' % expr_str(e)[:50], True,
                     'not a value that varies with the documents or the recursion', key='nullparam:%s' % expr_str(e)[:40])
                continue
            silent = []
            loud = []
            # a helper that refuses only when an allocation of its own failed: its refusing edge is the allocation failure above
            ec, negc = e, False
            while ec.get('k') == 'un' and ec['op'] == '!':
                negc = not negc
                ec = strip_casts(ec['e'])
            refusing = None
            if ec.get('k') == 'call' and callee_name(ec) in u.functions and _refuses_only_without_memory(u, u.functions[callee_name(ec)]):
                refusing = 'T' if negc else 'F'
            # the status of a helper of the unit that is handed nothing of the documents (a formatter that says whether its buffer was
            # large enough): whether it can refuse at all is a fact about values - not judged here
            ecall = ec
            pc_ = cmp_parts(ec)
            if pc_ is not None and strip_casts(pc_[0]).get('k') == 'call':
                ecall = strip_casts(pc_[0])
            helper_status = refusing is None and ecall.get('k') == 'call' and callee_name(ecall) in u.functions and \
                not any(x.get('k') == 'ref' and x.get('d') in tainted for a_ in ecall['args'] for x in walk(a_))
            for (y, l) in cfg.succ[m.id]:
                if l is not None and l[0] in ('T', 'F') and _range_decides(u, e) == (l[0] != 'T'):
                    continue        # the edge cannot be taken: the comparison is settled by the range of the operand's type
                if l is not None and refusing is not None and l[0] == refusing:
                    continue
                (loud if (y in can_emit) else silent).append((y, l))
            bad = bool(silent) and bool(loud)
            if bad and helper_status:
                raise AnalysisBroken('GEN1: %s: whether differences are reported depends on the status of %s, a helper that is handed nothing '
                                     'of the documents; whether it can refuse is not evaluated by this rule' % (h.where(e), callee_name(ecall)))
            R.ob('GEN1', h, e, 'the condition %s, which does not come from the two documents, does not decide whether differences are reported' % expr_str(e)[:50],
                 not bad, 'both edges can still emit' if not bad else
                 'on its %s edge %s returns without emitting anything, whatever the documents contain' % (
                     'true' if silent[0][1] and silent[0][1][0] == 'T' else 'false', h.name), key='foreign:%s' % expr_str(e)[:40])
    R.note('GEN1: %d branch conditions of the generator do not depend on the documents' % n)
    R.ob('GEN1', None, None, 'generator branches examined', True, '%d functions, %d conditions outside the documents' % (len(gens), n),
         key='census', file='cJSON_Utils.c', line=0)


# ---- ESC2: the text is longer than the name ------------------------------------------------------------------------------------

def esc2(units, R, floor=0):
    """Where a function appends an encoded member name to a text whose length it keeps itself (the encoder is handed
    B + L + c, L a variable or a field) and afterwards moves L forward over what it wrote, the step is the length of the
    encoded name: an amount computed from strlen() of that same name is too short whenever the name contains '~' or '/',
    and the next thing appended lands inside the name."""
    u = units['cJSON_Utils.c']
    n = 0
    for fn in u.function_list:
        if fn.body is None or fn.name in ('encode_string_as_pointer', 'pointer_encoded_length'):
            continue
        cfg = None
        for c in fn.calls():
            if callee_name(c) != 'encode_string_as_pointer' or len(c['args']) < 2:
                continue
            key = expr_str(strip_casts(c['args'][1]))
            # the parts of the destination: B + L (+ c)
            parts = []
            work = [strip_casts(c['args'][0])]
            while work:
                x = strip_casts(work.pop())
                if x.get('k') == 'bin' and x['op'] == '+':
                    work += [x['l'], x['r']]
                else:
                    parts.append(x)
            lens = [x for x in parts if x.get('k') in ('ref', 'mem') and u.ty(x.get('ty0', x['ty']))['c'] == 'int']
            if not lens:
                continue
            cfg = cfg or fn.cfg()
            cn = cfg.node_of_expr(c['id'])
            after = cfg.reachable(cn.id) if cn is not None else set()
            # counts taken of the same name
            raw_vars, enc_vars = set(), set()
            for a in list(assignments(fn)) + [{'l': {'k': 'ref', 'd': d_['d']}, 'r': d_['init'], 'op': '='} for d_ in fn.locals() if 'init' in d_]:
                if a['op'] != '=' or strip_casts(a['l']).get('k') != 'ref':
                    continue
                for x in walk(a['r']):
                    if x.get('k') == 'call' and x.get('args') and expr_str(strip_casts(x['args'][0])) == key:
                        if callee_name(x) in ('strlen', '__builtin_strlen'):
                            raw_vars.add(strip_casts(a['l'])['d'])
                        elif callee_name(x) == 'pointer_encoded_length':
                            enc_vars.add(strip_casts(a['l'])['d'])
            for a in assignments(fn):
                an = cfg.node_of_expr(a['id'])
                if an is None or an.id not in after or a['op'] not in ('+=', '='):
                    continue
                for L in lens:
                    if expr_str(strip_casts(a['l'])) != expr_str(L):
                        continue
                    if a['op'] == '=' and not any(expr_str(x) == expr_str(L) for x in walk(a['r'])):
                        continue
                    raw = any((x.get('k') == 'call' and callee_name(x) in ('strlen', '__builtin_strlen') and x.get('args') and
                               expr_str(strip_casts(x['args'][0])) == key) or (x.get('k') == 'ref' and x.get('d') in raw_vars) for x in walk(a['r']))
                    enc = any((x.get('k') == 'call' and callee_name(x) == 'pointer_encoded_length' and x.get('args') and
                               expr_str(strip_casts(x['args'][0])) == key) or (x.get('k') == 'ref' and x.get('d') in enc_vars) for x in walk(a['r']))
                    if not raw and not enc:
                        continue
                    n += 1
                    R.ob('ESC2', fn, a, 'the text grows by the length of the encoded name', not raw,
                         '%s moves forward by the encoded length of %s' % (expr_str(L)[:30], key[:30]) if not raw else
                         '%s moves forward by strlen(%s), but %s wrote the encoded name there: two characters for every \'~\' and \'/\', so '
                         'the recorded end lies inside the name and what is appended next overwrites its tail' % (
                             expr_str(L)[:30], key[:30], 'encode_string_as_pointer'), key='grow:%s' % expr_str(L)[:30])
    R.floor('ESC2', 'lengths moved over an encoded name', n, floor)


# ---- ESC3: a name is not compared with a token byte by byte ---------------------------------------------------------------------

def esc3(units, R, floor=0):
    """A member name and a reference token of a JSON pointer are different spellings of one string: '~' and '/' of the name are
    "~0" and "~1" in the token, and the token ends at '/' as well as at the terminator.  compare_pointers knows that.  Where a
    function that hands a name and a token to compare_pointers also compares a byte of that name with a byte of that token
    directly, and one outcome of the comparison passes the member over without asking compare_pointers, the comparison is
    only sound for a token byte that is neither '~' nor '/': the branch must lie behind tests that exclude both."""
    u = units['cJSON_Utils.c']
    n = 0
    for fn in u.function_list:
        if fn.body is None or fn.name == 'compare_pointers':
            continue
        calls = [c for c in fn.calls() if callee_name(c) == 'compare_pointers' and len(c['args']) >= 2]
        if not calls:
            continue
        cfg = fn.cfg()

        def byte_of(e):
            e = strip_casts(e)
            if e.get('k') == 'idx':
                return expr_str(strip_casts(e['b'])), expr_str(strip_casts(e['i']))
            if e.get('k') == 'un' and e['op'] == '*':
                return expr_str(strip_casts(e['e'])), '0'
            return None, None
        for c in calls:
            K, T = expr_str(strip_casts(c['args'][0])), expr_str(strip_casts(c['args'][1]))
            cnode = cfg.node_of_expr(c['id'])
            # variables the name is made of, and what they are made of: a new value of any of them is the next member
            kvars = {x.get('d') for x in walk(c['args'][0]) if x.get('k') == 'ref'}
            for d_ in fn.locals():
                if d_['d'] in kvars and 'init' in d_:
                    kvars |= {x.get('d') for x in walk(d_['init']) if x.get('k') == 'ref'}
            renew = set()
            for m in cfg.nodes:
                if m.kind == 'decl' and m.decl is not None and m.decl.get('d') in kvars:
                    renew.add(m.id)
                for ev in node_effects(m):
                    if ev.kind in ('store', 'incdec') and is_ref(ev.lhs) and strip_casts(ev.lhs)['d'] in kvars:
                        renew.add(m.id)
            for m in cfg.nodes:
                if m.kind != 'branch' or m.expr is None:
                    continue
                e = strip_casts(m.expr)
                if e.get('k') != 'bin' or e['op'] not in ('==', '!='):
                    continue
                (b1, i1), (b2, i2) = byte_of(e['l']), byte_of(e['r'])
                if b1 is None or b2 is None:
                    continue
                if (b1, b2) == (K, T):
                    ti = i2
                elif (b2, b1) == (K, T):
                    ti = i1
                else:
                    continue
                # does an outcome pass the member over?
                skips = False
                for (y, l) in cfg.succ[m.id]:
                    if cnode is not None and y != cnode.id and cnode.id not in cfg.reachable(y, stop=renew) and y not in renew:
                        skips = True
                    elif cnode is not None and y in renew:
                        skips = True
                if not skips:
                    continue
                n += 1

                def excludes(ch):
                    def pred(nd, label):
                        if nd.kind != 'branch' or label is None or label[0] not in ('T', 'F') or nd.expr is None:
                            return False
                        pc = cmp_parts(nd.expr)
                        if pc is None or pc[2] != ch or pc[1] not in ('==', '!='):
                            return False
                        bb, ii = byte_of(pc[0])
                        return (bb, ii) == (T, ti) and (label[0] == 'T') == (pc[1] == '!=')
                    return pred
                missing = [repr(chr(ch)) for ch in (ord('~'), ord('/')) if not guarded_by(cfg, m.id, excludes(ch))]
                R.ob('ESC3', fn, m.expr, 'a byte of the name is compared with a byte of the token only where the token byte stands for itself',
                     not missing, 'the token byte is known to be neither \'~\' nor \'/\'' if not missing else
                     '%s decides without compare_pointers although %s[%s] may be %s: a name that begins with \'~\' or \'/\' is spelled '
                     '"~0.." / "~1.." in the token, and the empty name has the token end there - such members are passed over' % (
                         expr_str(e)[:50], T[:30], ti, ' or '.join(missing)), key='raw:%s' % expr_str(e)[:40])
    R.floor('ESC3', 'raw comparisons of name bytes with token bytes', n, floor)


# ---- PTR1: a pointer designates something only when all of its text was used ------------------------------------------------------

def ptr1(units, R, fn_name='get_item_from_pointer'):
    """RFC 6901: a JSON pointer is the empty string or a sequence of "/token"s.  The resolver follows tokens while the text goes on
    with '/'; when it hands back an element, nothing of the text may be left over - text that does not begin with '/' is not a
    pointer and designates nothing.  Byte-path engine: on every path that ends in a return of something other than the constant
    NULL, the byte under the text cursor is the terminator, or the value returned is known to be NULL on that path."""
    from . import bytepath as bp
    u = units['cJSON_Utils.c']
    fn = u.functions.get(fn_name)
    if fn is None or fn.body is None:
        raise AnalysisBroken('PTR1: %s not found' % fn_name)
    cursors = [p_['n'] for p_ in fn.params if u.ty(p_['ty'])['c'] == 'ptr' and 'char' in u.ty(p_['ty'])['s']]
    if len(cursors) != 1:
        raise AnalysisBroken('PTR1: %s has %d text parameters' % (fn_name, len(cursors)))
    cur = cursors[0]
    ex = bp.explore(u, fn)
    n = 0
    worst = None
    for sg in ex.segments:
        if sg.end[0] != 'return' or sg.end[1] == ('k', 0):
            continue
        n += 1
        node = sg.end_node
        rexpr = strip_casts(node.expr) if node is not None and node.expr is not None else None
        if rexpr is None:
            continue
        # the value handed back is NULL on this path?
        is_null = is_null_const(rexpr)
        if rexpr.get('k') == 'ref':
            for r_ in sg.rel:
                e, truth = strip_casts(r_[0]), r_[1]
                neg = False
                while e.get('k') == 'un' and e['op'] == '!':
                    neg = not neg
                    e = strip_casts(e['e'])
                pc = None
                if e.get('k') == 'bin' and e['op'] in ('==', '!='):
                    for (x, y) in ((e['l'], e['r']), (e['r'], e['l'])):
                        if (is_null_const(y) or const_val(y) == 0) and strip_casts(x).get('k') == 'ref' and strip_casts(x)['d'] == rexpr['d']:
                            pc = e['op']
                elif e.get('k') == 'ref' and e['d'] == rexpr['d']:
                    pc = '!='
                if pc is None:
                    continue
                holds_nonnull = (pc == '!=') == (truth != neg) if not neg else (pc == '!=') == (not truth)
                if not holds_nonnull:
                    is_null = True
        if is_null:
            continue
        # the text may be read through the parameter itself or through parameter[index]
        rcur = cur
        via = [c_ for c_ in sg.readers if c_ == cur or (isinstance(c_, tuple) and c_[0] == cur)]
        if cur not in sg.readers and len(via) == 1:
            rcur = via[0]
        bs = sg.bytes_at(rcur) if rcur in sg.readers else bp.ALL
        if sg.start != 'entry' and rcur == cur:
            # what is known about the byte under the cursor whenever the loop head this path starts from is reached
            at_head = frozenset()
            for inc in ex.segments:
                if inc.end != ('head', sg.start):
                    continue
                a_ = inc.adv(cur) if cur in inc.pos else None
                known = inc.bytes_at(cur, a_) if (a_ is not None and cur in inc.readers) else bp.ALL
                at_head = frozenset(range(256)) if (known == bp.ALL or at_head == frozenset(range(256))) else (at_head | known)
            if at_head != frozenset(range(256)):
                bs = at_head if bs == bp.ALL else (frozenset(bs) & at_head)
        left = sorted(range(1, 256)) if bs == bp.ALL else sorted(b for b in bs if b != 0)
        if left and sg.start == 'entry' and cur not in sg.readers and not any(True for _ in ()):
            pass
        if left:
            worst = worst or (node, left)
    def ranges(vals):
        out, i = [], 0
        while i < len(vals):
            j = i
            while j + 1 < len(vals) and vals[j + 1] == vals[j] + 1:
                j += 1
            out.append('%d' % vals[i] if i == j else '%d..%d' % (vals[i], vals[j]))
            i = j + 1
        return ', '.join(out)
    R.ob('PTR1', fn, worst[0].expr if worst else None, 'an element is handed back only when the whole pointer text was used', worst is None,
         '%d returning paths' % n if worst is None else
         'a path returns %s while the byte under %s can be %s: text that does not begin with \'/\' (RFC 6901: not a JSON pointer) resolves '
         'to the element the search started from' % (expr_str(worst[0].expr)[:30], cur, ranges(worst[1])), key='consumed')
    R.floor('PTR1', 'returning paths of the pointer resolver', n, 1)


# ---- OWN11: a node handed over by value leaves nothing behind ---------------------------------------------------------------------

def own11(units, R, unit_names=('cJSON_Utils.c',), floor=1):
    """overwrite_item(root, *value) copies a whole node over another one (memcpy(root, &replacement, sizeof(cJSON))) and the caller
    then releases the emptied node alone (cJSON_free(value), not cJSON_Delete).  Whatever the copied node owned - its name, its
    value string, its children - must live on in root or be released: a payload field of root that the callee sets again behind the
    copy (root->string = its old name) drops the replacement's, and then the caller has to release that field of the node it frees."""
    PAY = ('string', 'valuestring', 'child')
    n = 0
    for un in unit_names:
        u = units[un]
        for H in u.function_list:
            if H.body is None:
                continue
            byval = [p for p in H.params if u.ty(p['ty'])['c'] == 'record' and u.ty(p['ty'])['s'].replace('const ', '').split()[-1] == 'cJSON']
            if not byval:
                continue
            rep = byval[0]
            ri = [i for i, p in enumerate(H.params) if p['d'] == rep['d']][0]
            copies = [c for c in H.calls() if callee_name(c) in ('memcpy', '__builtin_memcpy', '__builtin___memcpy_chk', 'memmove') and len(c['args']) >= 2 and
                      strip_casts(c['args'][1]).get('k') == 'un' and strip_casts(c['args'][1])['op'] == '&' and
                      strip_casts(strip_casts(c['args'][1])['e']).get('d') == rep['d'] and strip_casts(c['args'][0]).get('k') == 'ref']
            root = strip_casts(copies[0]['args'][0]) if copies else None
            copy_expr = copies[0] if copies else None
            if not copies:
                # the same copy written as an assignment of the whole record: *root = replacement
                for a in assignments(H):
                    l_, r_ = strip_casts(a['l']), strip_casts(a['r'])
                    if a['op'] == '=' and l_.get('k') == 'un' and l_['op'] == '*' and strip_casts(l_['e']).get('k') == 'ref' and \
                            r_.get('k') == 'ref' and r_.get('d') == rep['d']:
                        root = strip_casts(l_['e'])
                        copy_expr = a
                        break
            if root is None:
                continue
            hcfg = H.cfg()
            cnode = hcfg.node_of_expr(copy_expr['id'])
            after = hcfg.reachable(cnode.id) if cnode is not None else set()
            dropped = {}
            for a in assignments(H):
                l = strip_casts(a['l'])
                if l.get('k') == 'mem' and l['f'] in PAY and strip_casts(l['b']).get('d') == root['d']:
                    an = hcfg.node_of_expr(a['id'])
                    r = strip_casts(a['r'])
                    keeps = r.get('k') == 'mem' and r['f'] == l['f'] and strip_casts(r['b']).get('d') == rep['d']
                    if an is not None and an.id in after and not keeps:
                        dropped[l['f']] = a
            for G in u.function_list:
                if G.body is None:
                    continue
                for c in G.calls():
                    if callee_name(c) != H.name or ri >= len(c['args']):
                        continue
                    a0 = strip_casts(c['args'][ri])
                    if not (a0.get('k') == 'un' and a0['op'] == '*' and strip_casts(a0['e']).get('k') == 'ref'):
                        continue
                    v = strip_casts(a0['e'])
                    gcfg = G.cfg()
                    cn = gcfg.node_of_expr(c['id'])
                    reach = gcfg.reachable(cn.id) if cn is not None else set()
                    shallow = [x for x in G.calls() if callee_name(x) in ('cJSON_free', 'free') and x.get('args') and
                               strip_casts(x['args'][0]).get('d') == v['d'] and strip_casts(x['args'][0]).get('k') == 'ref' and
                               gcfg.node_of_expr(x['id']) is not None and gcfg.node_of_expr(x['id']).id in reach]
                    if not shallow:
                        continue
                    n += 1
                    lost = []
                    for f_, a_ in sorted(dropped.items()):
                        rel = [x for x in G.calls() if callee_name(x) in ('cJSON_free', 'free', 'cJSON_Delete') and x.get('args') and
                               strip_casts(x['args'][0]).get('k') == 'mem' and strip_casts(x['args'][0])['f'] == f_ and
                               strip_casts(strip_casts(x['args'][0])['b']).get('d') == v['d']]
                        if not rel:
                            lost.append((f_, a_))
                    R.ob('OWN11', G, c, 'what the node handed to %s by value owns lives on or is released' % H.name, not lost,
                         '%s keeps every payload pointer of the copy (%s); the emptied node is released alone' % (H.name, ', '.join(PAY)) if not dropped else
                         ('%s sets %s again behind the copy; %s releases %s of the node before freeing it' % (
                             H.name, ', '.join('->' + f for f in sorted(dropped)), G.name, ', '.join('->' + f for f in sorted(dropped))) if not lost else
                          '%s sets %s->%s again behind the copy (line %d), so the %s of the node it was handed is in nobody\'s hands, and %s frees that '
                          'node alone (cJSON_free(%s)) without releasing %s->%s: the block is lost' % (
                              H.name, root['n'], lost[0][0], lost[0][1]['loc'][0], lost[0][0], G.name, v['n'], v['n'], lost[0][0])),
                         key='byvalue:%s:%s' % (H.name, G.name))
    any_byval = any(u.ty(p_['ty'])['c'] == 'record' and u.ty(p_['ty'])['s'].replace('const ', '').split()[-1] == 'cJSON'
                    for un_ in unit_names for f_ in units[un_].function_list if f_.body is not None for p_ in f_.params)
    # no function takes a node by value: the interface this rule is about is gone, there is nothing to hand over
    R.floor('OWN11', 'nodes handed over by value and then freed alone', n, floor if any_byval else 0)


# ---- ESC5: a decoded character is not taken for the beginning of another escape sequence ------------------------------------------

def esc5(units, R, unit_names=('cJSON_Utils.c',), floor=0):
    """RFC 6901 section 4: "~01" decodes to "~1", not to "/" - the '~' that "~0" stands for is data.  In a decoder that finds the next
    sequence with a search (p = strchr(p + k, '~')) and writes the decoded character at p[j], the search has to resume behind that
    character whenever it can be the character searched for: k > j.  (The byte-by-byte decoder of the pinned tree has no such
    search; TAB9 evaluates it.)"""
    from ..dataflow import access
    n = 0
    for un in unit_names:
        u = units[un]
        for fn in u.function_list:
            if fn.body is None:
                continue
            searches = []
            for a in assignments(fn):
                r = strip_casts(a['r'])
                if a['op'] != '=' or not is_ref(a['l']) or r.get('k') != 'call' or callee_name(r) not in ('strchr', 'memchr', '__builtin_strchr', '__builtin_memchr'):
                    continue
                p = strip_casts(a['l'])
                e = strip_casts(r['args'][0])
                k = 0
                while e.get('k') == 'bin' and e['op'] in ('+', '-') and const_val(e['r']) is not None:
                    k += const_val(e['r']) if e['op'] == '+' else -const_val(e['r'])
                    e = strip_casts(e['l'])
                ch = const_val(r['args'][1])
                if e.get('k') == 'ref' and e.get('d') == p['d'] and ch is not None:
                    searches.append((a, p, k, ch))
            if not searches:
                continue
            cfg = fn.cfg()
            for (a, p, k, ch) in searches:
                an = cfg.node_of_expr(a['id'])
                if an is None or an.id not in cfg.reachable(an.id):
                    continue        # not in a loop
                cyc = cfg.reachable(an.id) & cfg.reachable(an.id, forward=False)
                stores = []
                for m in cyc:
                    for ev in node_effects(cfg.nodes[m]):
                        if ev.kind != 'store' or ev.node.get('op') != '=':
                            continue
                        acc = access(ev.lhs) if strip_casts(ev.lhs).get('k') in ('idx', 'un') else None
                        if acc is None or not isinstance(acc[1], int):
                            continue
                        b = strip_casts(acc[0])
                        j = acc[1]
                        while b.get('k') == 'bin' and b['op'] in ('+', '-') and const_val(b['r']) is not None:
                            j += const_val(b['r']) if b['op'] == '+' else -const_val(b['r'])
                            b = strip_casts(b['l'])
                        if b.get('k') == 'ref' and b.get('d') == p['d']:
                            stores.append((ev.node, j, const_val(ev.node['r'])))
                if not stores:
                    continue
                n += 1
                bad = [(st, j, v) for (st, j, v) in stores if (v is None or v == ch) and k <= j]
                R.ob('ESC5', fn, a, 'the search for the next %r resumes behind the character that was just decoded' % chr(ch), not bad,
                     'resumes at %s%+d, every decoded character lies in front of that' % (p['n'], k) if not bad else
                     '%s writes %s at %s[%d] and the search resumes at %s%+d: a decoded %r is taken for the beginning of another '
                     'sequence ("~01" becomes "/")' % (expr_str(bad[0][0])[:40], repr(chr(bad[0][2])) if bad[0][2] is not None else 'a character',
                                                      p['n'], bad[0][1], p['n'], k, chr(ch)), key='resume:%s' % fn.name)
    R.floor('ESC5', 'search-driven decoders', n, floor)


# ---- ESC4: a decoded name is not read as a token again --------------------------------------------------------------------------

def esc4(units, R, floor=1):
    """Once decode_pointer_inplace has turned the last token of a path into the member name it spells, that text is a name: it is
    looked up with the key functions of cJSON.c.  Handing it to something that reads *tokens* - compare_pointers' second argument,
    the resolver, or a helper whose parameter ends up there - decodes it a second time: a '~' in the name is taken for the start of
    an escape and a '/' for the end of the token, so the wrong member (or none) is found."""
    u = units['cJSON_Utils.c']
    # parameters read as tokens
    token_params = {}
    for name, idx in (('compare_pointers', 1), ('get_item_from_pointer', 1)):
        if name in u.functions:
            token_params.setdefault(name, set()).add(idx)
    if not token_params:
        raise AnalysisBroken('ESC4: no reader of pointer tokens found in cJSON_Utils.c')
    changed = True
    while changed:
        changed = False
        for fn in u.function_list:
            if fn.body is None:
                continue
            pidx = {p_['d']: i for i, p_ in enumerate(fn.params)}
            for c in fn.calls():
                cn = callee_name(c)
                for i in token_params.get(cn, ()):
                    if i >= len(c['args']):
                        continue
                    a = strip_casts(c['args'][i])
                    while a.get('k') == 'bin' and a['op'] in ('+', '-'):
                        a = strip_casts(a['l'])
                    if a.get('k') == 'ref' and a.get('d') in pidx and pidx[a['d']] not in token_params.get(fn.name, set()):
                        token_params.setdefault(fn.name, set()).add(pidx[a['d']])
                        changed = True
    n = 0
    for fn in u.function_list:
        if fn.body is None:
            continue
        decs = [c for c in fn.calls() if callee_name(c) == 'decode_pointer_inplace' and c.get('args')]
        if not decs:
            continue
        cfg = fn.cfg()
        for dc in decs:
            v = strip_casts(dc['args'][0])
            if v.get('k') != 'ref':
                continue
            n += 1
            dn = cfg.node_of_expr(dc['id'])
            after = cfg.reachable(dn.id) if dn is not None else set()
            # the decoded text is in v until v is pointed elsewhere
            bad = None
            for c in fn.calls():
                cn = callee_name(c)
                for i in token_params.get(cn, ()):
                    if i >= len(c['args']):
                        continue
                    a = strip_casts(c['args'][i])
                    while a.get('k') == 'bin' and a['op'] in ('+', '-'):
                        a = strip_casts(a['l'])
                    if a.get('k') == 'ref' and a.get('d') == v['d']:
                        cnode = cfg.node_of_expr(c['id'])
                        if cnode is not None and cnode.id in after:
                            # re-pointed in between on every path?
                            redefs = {m.id for m in cfg.nodes for ev in node_effects(m)
                                      if ev.kind == 'store' and is_ref(ev.lhs) and strip_casts(ev.lhs)['d'] == v['d'] and ev.node['op'] == '='}
                            if cnode.id in cfg.reachable(dn.id, stop=redefs):
                                bad = bad or (c, cn)
            R.ob('ESC4', fn, bad[0] if bad else dc, 'the name decoded into %s is not read as a token again' % v['n'], bad is None,
                 'looked up as a name only' if bad is None else
                 '%s reads its argument as a pointer token (it ends up as the second argument of compare_pointers), but %s holds the '
                 'decoded name here: a \'~\' or \'/\' in the name is decoded a second time' % (bad[1], v['n']), key='decoded:%s' % v['n'])
    R.floor('ESC4', 'tokens decoded in place', n, floor)


def _null_pruners(u):
    """static functions of one container parameter that delete the null children of it: name -> (function, list of recursion calls)"""
    out = {}
    for h in u.function_list:
        if h.body is None or not h.static or len(h.params) != 1:
            continue
        deletes = False
        for c in h.calls():
            cn = callee_name(c)
            if cn in ('cJSON_Delete', 'cJSON_DeleteItemFromObject', 'cJSON_DeleteItemFromObjectCaseSensitive', 'cJSON_DeleteItemFromArray'):
                node = h.cfg().node_of_expr(c['id'])
                if node is not None and guarded_by(h.cfg(), node.id, lambda nn, l: nn.kind == 'branch' and l is not None and l[0] == 'T' and
                                                   _is_kind_test(nn.expr, 'cJSON_IsNull') is not None):
                    deletes = True
        if deletes:
            out[h.name] = (h, [c for c in h.calls() if callee_name(c) == h.name])
    return out


def mrg6(units, R, names=None):
    """RFC 7396 treats every member name alike (the empty name is a name): in the merge-patch code no branch decides on a byte of a
    member name compared with a constant (`member->string[0] != '\\0'`).  Names go to the comparators and to the lookups as wholes."""
    from ..dataflow import access
    u = units['cJSON_Utils.c']
    fns = [u.functions[n_] for n_ in (names or ('merge_patch', 'generate_merge_patch')) if n_ in u.functions]
    if not fns:
        raise AnalysisBroken('MRG6: merge_patch / generate_merge_patch not found')
    n = 0
    for fn in fns:
        cfg = fn.cfg()
        for nd in cfg.nodes:
            if nd.kind not in ('branch', 'switch') or nd.expr is None:
                continue
            for x in walk(nd.expr):
                if x.get('k') not in ('idx', 'un') or access(x) is None:
                    continue
                base = strip_casts(access(x)[0])
                while base.get('k') == 'bin' and base['op'] in ('+', '-'):
                    base = strip_casts(base['l'])
                if base.get('k') == 'mem' and base['f'] == 'string':
                    n += 1
                    R.ob('MRG6', fn, nd.expr, 'no member is treated differently because of a byte of its name', False,
                         '%s reads %s: a member with that name (the empty name, if the byte is the terminator) is passed over or refused, '
                         'RFC 7396 knows no such names' % (expr_str(strip_casts(nd.expr))[:60], expr_str(x)[:40]), key='namebyte:%s' % fn.name)
        R.ob('MRG6', fn, None, 'the branches of %s were examined for reads of name bytes' % fn.name, True, '', key='census:%s' % fn.name)


def mrg5(units, R, floor=0):
    """RFC 7396: null means "delete" only as a member of an object of the patch; an array in the patch is a value as a whole and is
    taken over verbatim - null elements and whatever the objects inside it contain.  A function that takes the null children out of
    a copy of the patch therefore (a) deletes a null child only where the container is known to be an object or the function is only
    ever entered with objects, and (b) descends only into children known to be objects."""
    u = units['cJSON_Utils.c']
    n = 0
    for name, (h, rec) in sorted(_null_pruners(u).items()):
        cfg = h.cfg()
        for c in rec:
            n += 1
            a = strip_casts(c['args'][0])
            node = cfg.node_of_expr(c['id'])
            v = a.get('d') if a.get('k') == 'ref' else None
            ok = node is not None and v is not None and guarded_by(
                cfg, node.id, lambda nn, l: nn.kind == 'branch' and l is not None and l[0] == 'T' and _is_kind_test(nn.expr, 'cJSON_IsObject') == v)
            R.ob('MRG5', h, c, '%s descends only into children that are objects' % name, ok,
                 'reachable only through the true edge of cJSON_IsObject(%s)' % a.get('n') if ok else
                 'the descent into %s can be reached for a child that is an array: null members of objects inside an array of the '
                 'patch would be deleted, but the array is a value as a whole (RFC 7396)' % expr_str(a)[:30], key='descend:%s' % name)
    R.floor('MRG5', 'descents of null pruners', n, floor)


# ---- IDX1: an index token converted by the C library begins with a digit ---------------------------------------------------------

def idx1(units, R, floor=0):
    """RFC 6901: an array index is written as decimal digits, no sign, no white space.  strtoul / strtol and their relatives skip
    white space and take a sign; where cJSON_Utils.c hands a reference token to one of them, the call lies behind tests that the
    first byte of the token is a decimal digit (`+1`, `-0`, ` 1` would otherwise designate elements)."""
    u = units['cJSON_Utils.c']
    n = 0
    CONV = ('strtoul', 'strtol', 'strtoull', 'strtoll', 'atoi', 'atol', 'strtod', 'sscanf')
    for fn in u.function_list:
        if fn.body is None:
            continue
        for c in fn.calls():
            if callee_name(c) not in CONV or not c.get('args'):
                continue
            a = strip_casts(c['args'][0])
            if a.get('k') != 'ref' or a.get('dk') != 'param':
                continue
            t = u.ty(a.get('ty0', a['ty']))
            if t.get('c') != 'ptr' or 'char' not in t.get('s', ''):
                continue
            n += 1
            cfg = fn.cfg()
            node = node_containing(cfg, c)

            def bound(which):
                def pred(nn, l):
                    if nn.kind != 'branch' or l is None or l[0] not in ('T', 'F') or nn.expr is None:
                        return False
                    pc = cmp_parts(nn.expr)
                    if pc is None:
                        return False
                    rd = strip_casts(pc[0])
                    base = idx = None
                    if rd.get('k') == 'idx':
                        base, idx = strip_casts(rd['b']), const_val(rd['i'])
                    elif rd.get('k') == 'un' and rd['op'] == '*':
                        base, idx = strip_casts(rd['e']), 0
                    if base is None or base.get('d') != a['d'] or idx != 0:
                        return False
                    op, k = pc[1], pc[2]
                    if l[0] == 'F':
                        op = {'<': '>=', '<=': '>', '>': '<=', '>=': '<', '==': '!=', '!=': '=='}[op]
                    if which == 'lo':
                        return (op == '>=' and k >= 48) or (op == '>' and k >= 47)
                    return (op == '<=' and k <= 57) or (op == '<' and k <= 58)
                return pred
            ok = guarded_by(cfg, node.id, bound('lo')) and guarded_by(cfg, node.id, bound('hi'))
            R.ob('IDX1', fn, c, 'the token handed to %s begins with a decimal digit' % callee_name(c), ok,
                 'reached only where %s[0] is within 0..9' % a['n'] if ok else
                 '%s skips white space and takes a sign: "+1", "-0" or " 1" would be read as an index' % callee_name(c), key='conv:%s' % callee_name(c))
    R.floor('IDX1', 'library conversions of reference tokens', n, floor)


# ---- FND1: the search for a node gives up only because of the tree ----------------------------------------------------------------

def fnd1(units, R, fn_name='cJSONUtils_FindPointerFromObjectTo'):
    """cJSONUtils_FindPointerFromObjectTo (and the recursive helper it may be a wrapper of): "for every node inside a tree, the pointer
    constructed from the root resolves back to it" - for every tree.  A branch whose condition is computed from neither the tree nor
    the target, nor is the NULL test of a fresh allocation, must not have an edge on which the search can only answer NULL while
    its other edge can still find the node: a depth budget makes nodes of deep trees unfindable, whatever the bound."""
    u = units['cJSON_Utils.c']
    ent = u.functions.get(fn_name)
    if ent is None or ent.body is None:
        raise AnalysisBroken('FND1: %s not found' % fn_name)
    fns = [ent]
    for c in ent.calls():
        h = u.functions.get(callee_name(c))
        if h is not None and h.static and h.body is not None and h not in fns and \
                sum(1 for p_ in h.params if 'cJSON' in u.ty(p_['ty'])['s']) >= 2 and any(callee_name(x) == h.name for x in h.calls()):
            fns.append(h)
    n = 0
    for h in fns:
        cfg = h.cfg()
        tainted = {p_['d'] for p_ in h.params if 'cJSON' in u.ty(p_['ty'])['s']}
        changed = True
        while changed:
            changed = False
            pairs = [(strip_casts(a['l']), a['r']) for a in assignments(h) if strip_casts(a['l']).get('k') == 'ref']
            pairs += [({'d': d_['d']}, d_['init']) for d_ in h.locals() if 'init' in d_]
            for l, r in pairs:
                if l['d'] in tainted:
                    continue
                if any(x.get('k') == 'ref' and x.get('d') in tainted for x in walk(r)):
                    tainted.add(l['d'])
                    changed = True
        fresh = _fresh_pointer_locals(u, h)
        found_rets = {r_.id for r_ in cfg.returns() if r_.expr is not None and not is_null_const(r_.expr) and const_val(r_.expr) != 0}
        can_find = set()
        for r_ in found_rets:
            can_find |= cfg.reachable(r_, forward=False) | {r_}
        for m in cfg.nodes:
            if m.kind != 'branch' or m.expr is None:
                continue
            e = strip_casts(m.expr)
            refs = [x for x in walk(e) if x.get('k') == 'ref' and x.get('dk') in ('local', 'param')]
            if not refs or any(x['d'] in tainted or x['d'] in fresh for x in refs):
                continue
            n += 1
            gives_up, goes_on = [], []
            for (y, l) in cfg.succ[m.id]:
                if l is not None and l[0] in ('T', 'F') and _range_decides(u, e) == (l[0] != 'T'):
                    continue
                (goes_on if y in can_find else gives_up).append((y, l))
            bad = bool(gives_up) and bool(goes_on)
            R.ob('FND1', h, e, 'the condition %s, which does not come from the tree or the target, does not decide whether the node is found' %
                 expr_str(e)[:50], not bad, 'both edges can still find it' if not bad else
                 'on its %s edge %s can only answer NULL: a node that is in the tree is reported as not found' % (
                     'true' if gives_up[0][1] and gives_up[0][1][0] == 'T' else 'false', h.name), key='foreign:%s' % expr_str(e)[:40])
    R.ob('FND1', ent, None, 'branches of the pointer search that do not depend on the tree', True, '%d found in %d function(s)' % (n, len(fns)),
         key='census')


# ---- ORD2: a position in a member list does not survive the sorting of that list -----------------------------------------------------

def ord2(units, R, floor=1):
    """sort_object(X) re-links the members of X: the member that was first is somewhere in the middle afterwards.  A local that was set
    to X->child (or to a member reached from it) before the call and is read after it without being set again walks the list from
    the wrong place - every member that now sorts in front of it is passed over."""
    u = units['cJSON_Utils.c']
    SORTERS = {'sort_object', 'cJSONUtils_SortObject', 'cJSONUtils_SortObjectCaseSensitive'}
    n = 0
    for fn in u.function_list:
        if fn.body is None or fn.name in SORTERS or fn.name == 'sort_list':
            continue
        sorts = [c for c in fn.calls() if callee_name(c) in SORTERS and c.get('args')]
        if not sorts:
            continue
        cfg = fn.cfg()
        defs = []           # (cfg node id, decl id, name, container expression text)
        for m in cfg.nodes:
            if m.kind == 'decl' and m.decl is not None and 'init' in m.decl:
                r = strip_casts(m.decl['init'])
                base = r
                while base.get('k') == 'mem' and base['f'] in ('next', 'prev'):
                    base = strip_casts(base['b'])
                if base.get('k') == 'mem' and base['f'] == 'child':
                    defs.append((m.id, m.decl['d'], m.decl['n'], expr_str(strip_casts(base['b']))))
            for ev in node_effects(m):
                if ev.kind == 'store' and ev.node['op'] == '=' and is_ref(ev.lhs):
                    r = strip_casts(ev.node['r'])
                    base = r
                    while base.get('k') == 'mem' and base['f'] in ('next', 'prev'):
                        base = strip_casts(base['b'])
                    if base.get('k') == 'mem' and base['f'] == 'child':
                        defs.append((m.id, strip_casts(ev.lhs)['d'], strip_casts(ev.lhs)['n'], expr_str(strip_casts(base['b']))))
        for c in sorts:
            n += 1
            X = expr_str(strip_casts(c['args'][0]))
            cn = node_containing(cfg, c)
            bad = None
            for (did, d, name, cont) in defs:
                if cont != X:
                    continue
                redefs = {m.id for m in cfg.nodes for ev in node_effects(m)
                          if ev.kind in ('store', 'incdec') and is_ref(ev.lhs) and strip_casts(ev.lhs)['d'] == d and m.id != did}
                redefs |= {m.id for m in cfg.nodes if m.kind == 'decl' and m.decl is not None and m.decl.get('d') == d and m.id != did and 'init' in m.decl}
                # the definition reaches the sort ...
                if cn.id not in (cfg.reachable(did, stop=redefs) | {did}):
                    continue
                # ... and the variable is read behind the sort before it is set again
                region = cfg.reachable(cn.id, stop=redefs)
                for m in region:
                    nd = cfg.nodes[m]
                    root = nd.expr if nd.expr is not None else (nd.decl.get('init') if nd.kind == 'decl' and nd.decl else None)
                    if root is None or m == cn.id:
                        continue
                    lhs_ids = {strip_casts(x['l']).get('id') for x in walk(root) if x.get('k') == 'bin' and x.get('op') == '='}
                    if any(x.get('k') == 'ref' and x.get('d') == d and x.get('id') not in lhs_ids for x in walk(root)):
                        bad = bad or (name, nd.line)
            R.ob('ORD2', fn, c, 'no position in the member list of %s is kept across its sorting' % X, bad is None,
                 'cursors are taken behind the call' if bad is None else
                 '%s was set from %s->child before the call and is read at line %d behind it: the walk starts in the middle of the sorted '
                 'list and passes over every member that now sorts in front' % (bad[0], X, bad[1]), key='sort:%s' % X)
    R.floor('ORD2', 'calls of the member sorter', n, floor)


# ---- DIG1: digit-counting loops agree with their radix ----------------------------------------------------------------------

def dig1(units, R, unit_names=('cJSON.c', 'cJSON_Utils.c')):
    """A loop whose body only divides x by a constant K and adds one to a counter counts the digits of x in radix K.  It must
    run while x still has more than one digit (x >= K, x > K - 1) or while x is not zero (x != 0, x > 0, x); any other threshold
    counts something that is not the number of digits the digit writer (x % K) will produce.  The tree has no such loop today;
    the rule is kept armed by a fixture."""
    n = 0
    for un in unit_names:
        u = units[un]
        for fn in u.function_list:
            for lp in fn.nodes():
                if lp.get('k') not in ('while', 'for') or 'c' not in lp or lp.get('body') is None:
                    continue
                body = lp['body']
                stmts = list(body['body']) if body.get('k') == 'compound' else [body]
                if lp.get('k') == 'for' and lp.get('inc') is not None:
                    stmts = stmts + [lp['inc']]
                divs, incs, other = [], [], 0
                flat = []
                for st in stmts:
                    e = st.get('e', st) if st.get('k') == 'exprstmt' else st
                    e = strip_casts(e)
                    # (void)a, b  comma lists
                    work = [e]
                    while work:
                        x = strip_casts(work.pop())
                        if x.get('k') == 'bin' and x.get('op') == ',':
                            work += [x['l'], x['r']]
                        else:
                            flat.append(x)
                for x in flat:
                    if x.get('k') == 'bin' and x.get('op') == '/=' and strip_casts(x['l']).get('k') == 'ref' and const_val(x['r']) is not None:
                        divs.append((strip_casts(x['l'])['d'], const_val(x['r'])))
                    elif x.get('k') == 'bin' and x.get('op') == '=' and strip_casts(x['l']).get('k') == 'ref' and \
                            strip_casts(x['r']).get('k') == 'bin' and strip_casts(x['r'])['op'] == '/' and \
                            strip_casts(strip_casts(x['r'])['l']).get('d') == strip_casts(x['l'])['d'] and const_val(strip_casts(x['r'])['r']) is not None:
                        divs.append((strip_casts(x['l'])['d'], const_val(strip_casts(x['r'])['r'])))
                    elif x.get('k') == 'un' and x.get('op') in ('post++', 'pre++', '++') and strip_casts(x['e']).get('k') == 'ref':
                        incs.append(strip_casts(x['e'])['d'])
                    elif x.get('k') == 'bin' and x.get('op') == '+=' and const_val(x['r']) == 1 and strip_casts(x['l']).get('k') == 'ref':
                        incs.append(strip_casts(x['l'])['d'])
                    else:
                        other += 1
                if len(divs) != 1 or len(incs) != 1 or other or divs[0][1] < 2 or incs[0] == divs[0][0]:
                    continue
                xd, K = divs[0]
                c = strip_casts(lp['c'])
                thr = None
                if c.get('k') == 'ref' and c.get('d') == xd:
                    thr = ('!=', 0)
                elif c.get('k') == 'bin' and c.get('op') in ('>', '>=', '!=') and strip_casts(c['l']).get('d') == xd and const_val(c['r']) is not None:
                    thr = (c['op'], const_val(c['r']))
                elif c.get('k') == 'bin' and c.get('op') in ('<', '<=') and strip_casts(c['r']).get('d') == xd and const_val(c['l']) is not None:
                    thr = ({'<': '>', '<=': '>='}[c['op']], const_val(c['l']))
                if thr is None:
                    continue
                n += 1
                ok = thr in (('>=', K), ('>', K - 1), ('!=', 0), ('>', 0), ('>=', 1))
                R.ob('DIG1', fn, lp['c'], 'the loop counting the digits of %s in radix %d runs while more digits remain' % (
                    expr_str(strip_casts(c['l'])) if c.get('k') == 'bin' else expr_str(c), K), ok,
                    'condition %s' % expr_str(c) if ok else
                    'condition %s: with a division by %d the count is one short for values whose leading digits are exactly %d (10, 100..109, ...)'
                    % (expr_str(c), K, thr[1]) if thr[0] in ('>', '>=') and thr[1] >= K else 'condition %s does not match the division by %d' % (expr_str(c), K),
                    key='digits:%s:%d' % (fn.name, K))
    R.ob('DIG1', None, None, 'digit-counting loops examined', True, '%d loops' % n, key='census', file='cJSON_Utils.c', line=0)


def _buffer_key(e):
    """The storage a text is printed into: a variable, or a member of the record a variable points to; the position inside it
    (buffer + length) does not matter."""
    e = strip_casts(e)
    while e.get('k') == 'bin' and e['op'] == '+':
        e = strip_casts(e['l'])
    if e.get('k') == 'ref':
        return e['d']
    if e.get('k') == 'mem' and strip_casts(e['b']).get('k') == 'ref':
        return (strip_casts(e['b'])['d'], e['f'])
    return None


def gen2(units, R, floor=1):
    """Array edit scripts of the patch generator.  Where a loop emits one "add" or "remove" operation per leftover element and
    names the position with an index printed (sprintf, integer conversion) from a counter, RFC 6902 application shifts the
    following elements after every operation:
      - "remove" while walking forwards: the position must stay what it is - every removal moves the next leftover element to
        that same index; a counter that steps forward in the loop skips every second element;
      - "add" while walking forwards: every element goes behind the one added before it - the counter steps forward and the
        index is printed again on every iteration; the same index for every element reverses their order ("-" appends and
        needs no index).
    A loop that walks backwards (x = x->prev) is not judged."""
    from .parse import _sccs
    u = units['cJSON_Utils.c']
    INTCONV = re.compile(r'%[-+ #0]*\d*(?:hh|h|ll|l|z|j|t)?[diux]')
    n = 0
    for fn in u.function_list:
        if fn.body is None:
            continue
        emits = []
        for c in fn.calls():
            ops = [bytes(strip_casts(a)['bytes']).decode('latin1') for a in c.get('args', []) if strip_casts(a).get('k') == 'str']
            ops = [o for o in ops if o in ('add', 'remove')]
            if len(ops) == 1 and callee_name(c) in u.functions:
                emits.append((c, ops[0]))
        if not emits:
            continue
        # index buffers: B written by sprintf(B, "..%lu..", idx)
        prints = []        # (call, buffer decl, counter decl)
        for c in fn.calls():
            if callee_name(c) not in ('sprintf', 'snprintf') or len(c['args']) < 3:
                continue
            bkey = _buffer_key(c['args'][0])
            fi = 1 if callee_name(c) == 'sprintf' else 2
            f = strip_casts(c['args'][fi]) if fi < len(c['args']) else {}
            if bkey is None or f.get('k') != 'str':
                continue
            fmt = bytes(f['bytes']).decode('latin1')
            if len(INTCONV.findall(fmt)) != 1:
                continue
            # the integer argument: position of the conversion among the arguments
            convs = re.findall(r'%(?:%|[-+ #0]*\d*(?:hh|h|ll|l|z|j|t)?[a-zA-Z])', fmt)
            convs = [x for x in convs if x != '%%']
            pos = [k for k, x in enumerate(convs) if INTCONV.fullmatch(x)]
            if not pos or fi + 1 + pos[0] >= len(c['args']):
                continue
            iv = strip_casts(c['args'][fi + 1 + pos[0]])
            if iv.get('k') == 'ref' and u.ty(iv.get('ty0', iv['ty']))['c'] == 'int':
                prints.append((c, bkey, iv['d']))
        if not prints:
            continue
        # pointers that are only ever pointed at an index buffer (or NULL) stand for that buffer
        pdefs = {}
        for a_ in assignments(fn):
            if is_ref(a_['l']):
                pdefs.setdefault(strip_casts(a_['l'])['d'], []).append(a_['r'] if a_['op'] == '=' else None)
        for d_ in fn.locals():
            if 'init' in d_:
                pdefs.setdefault(d_['d'], []).append(d_['init'])
        bufset = {p_[1] for p_ in prints}
        alias = {}
        for pd_, rs_ in pdefs.items():
            tg = {strip_casts(r_).get('d') for r_ in rs_ if r_ is not None and not is_null_const(r_) and strip_casts(r_).get('k') == 'ref'}
            if pd_ not in bufset and rs_ and all(r_ is not None and (is_null_const(r_) or strip_casts(r_).get('k') == 'ref') for r_ in rs_) and \
                    len(tg) == 1 and next(iter(tg)) in bufset:
                alias[pd_] = next(iter(tg))
        cfg = fn.cfg()
        succ = {m.id: {y for (y, _l) in cfg.succ[m.id]} for m in cfg.nodes}

        def on_cycle_without(start, removed):
            """is there a path start -> ... -> start that avoids the nodes in `removed`?"""
            seen = set()
            work = [y for y in succ[start] if y not in removed]
            while work:
                x = work.pop()
                if x == start:
                    return True
                if x in seen:
                    continue
                seen.add(x)
                work.extend(y for y in succ[x] if y not in removed)
            return False
        steps = {}      # counter decl -> {node id: +1 / -1 / 0 (other modification)}
        for m in cfg.nodes:
            for ev in node_effects(m):
                if ev.kind == 'incdec' and is_ref(ev.lhs):
                    steps.setdefault(strip_casts(ev.lhs)['d'], {})[m.id] = 1 if ev.delta > 0 else -1
                elif ev.kind == 'store' and is_ref(ev.lhs):
                    d = strip_casts(ev.lhs)['d']
                    k = const_val(ev.node['r'])
                    if ev.node['op'] == '+=' and k is not None and k > 0:
                        steps.setdefault(d, {})[m.id] = 1
                    elif ev.node['op'] == '-=' and k is not None and k > 0:
                        steps.setdefault(d, {})[m.id] = -1
                    else:
                        steps.setdefault(d, {})[m.id] = 0
        for (c, op) in emits:
            bufs = {alias.get(x['d'], x['d']) for a in c['args'] for x in walk(a) if x.get('k') == 'ref' and alias.get(x.get('d'), x.get('d')) in bufset}
            bufs |= {k for a in c['args'] for x in walk(a) if x.get('k') == 'mem' for k in [_buffer_key(x)] if k in bufset}
            if not bufs:
                continue
            node = node_containing(cfg, c)
            if not on_cycle_without(node.id, set()):
                continue            # a single operation, not one per element
            # the printed index must still be in the buffer: a store into the buffer between the print and the call (the path cut
            # back to its former length) leaves the text that was there before
            live = set()
            for bd in bufs:
                kills = set()
                for m in cfg.nodes:
                    for ev in node_effects(m):
                        if ev.kind == 'store' and strip_casts(ev.lhs).get('k') in ('idx', 'un') and \
                                _buffer_key(strip_casts(ev.lhs).get('b', strip_casts(ev.lhs).get('e'))) == bd:
                            kills.add(m.id)
                for p_ in prints:
                    if p_[1] != bd:
                        continue
                    pn = node_containing(cfg, p_[0]).id
                    seen = set()
                    work = [pn]
                    while work:
                        x = work.pop()
                        for y in succ[x]:
                            if y == node.id:
                                live.add(bd)
                            if y not in seen and y not in kills:
                                seen.add(y)
                                work.append(y)
            bufs = {b_ for b_ in bufs if b_ in live}
            if not bufs:
                continue
            # direction of the walk: the element handed to the emitter / tested by the loop is stepped through next or prev
            walk_fields = set()
            for m in cfg.nodes:
                for ev in node_effects(m):
                    if ev.kind == 'store' and ev.node['op'] == '=' and is_ref(ev.lhs):
                        r = strip_casts(ev.node['r'])
                        if r.get('k') == 'mem' and r['f'] in ('next', 'prev') and is_ref(r['b']) and \
                                strip_casts(r['b'])['d'] == strip_casts(ev.lhs)['d']:
                            # only steps that lie on a cycle through the emitting call
                            if _reaches(succ, node.id, m.id) and _reaches(succ, m.id, node.id):
                                walk_fields.add(r['f'])
            if 'prev' in walk_fields:
                R.note('GEN2: %s: the loop around the "%s" at line %d walks backwards; not judged' % (fn.name, op, node.line))
                continue
            for bd in sorted(bufs, key=repr):
                for ctr in sorted({p[2] for p in prints if p[1] == bd}):
                    n += 1
                    pnodes = {node_containing(cfg, p[0]).id for p in prints if p[1] == bd and p[2] == ctr}
                    ups = {m for m, s in steps.get(ctr, {}).items() if s > 0}
                    cname = next(x['n'] for p in prints if p[2] == ctr for x in walk(p[0]) if x.get('k') == 'ref' and x.get('d') == ctr)
                    if op == 'remove':
                        bad = [m for m in ups if _reaches(succ, node.id, m) and _reaches(succ, m, node.id)]
                        R.ob('GEN2', fn, c, 'leftover elements are removed at a position that does not move forward', not bad,
                             'counter %s is not stepped forward in the loop' % cname if not bad else
                             'counter %s is stepped forward at line %d inside the loop: after a removal the next leftover element '
                             'already sits at the same index, so every second one is skipped' % (cname, cfg.nodes[bad[0]].line),
                             key='remove:%s' % cname)
                    else:
                        stepped = not on_cycle_without(node.id, ups)
                        printed = not on_cycle_without(node.id, pnodes)
                        ok = stepped and printed
                        R.ob('GEN2', fn, c, 'each new element is added behind the one added before it', ok,
                             'counter %s is stepped and the index printed again on every iteration' % cname if ok else
                             ('counter %s is not stepped forward on every iteration' % cname if not stepped else
                              'the index is printed from %s outside the loop' % cname) +
                             ': every element is inserted at the same index, which reverses their order', key='add:%s' % cname)
    R.floor('GEN2', 'indexed add/remove loops of the patch generator', n, floor)


def _reaches(succ, a, b):
    seen = set()
    work = list(succ[a])
    while work:
        x = work.pop()
        if x == b:
            return True
        if x in seen:
            continue
        seen.add(x)
        work.extend(succ[x])
    return False


def numu(units, R):
    """Numbers in the utilities' own comparison (compare_json) and in the patch generator (create_patches): two numbers count as
    equal - `return true`, no "replace" emitted - only behind the true edge of compare_double on their two valuedouble fields.
    Other conditions (the historic valueint test) may make more numbers count as different, never fewer: valueint is the
    truncated double, so agreeing valueints say nothing about the fractions."""
    from .common import region_without_edges
    u = units['cJSON_Utils.c']
    n = 0
    for fname in ('compare_json', 'create_patches'):
        fn = u.functions.get(fname)
        if fn is None or fn.body is None:
            continue
        cfg = fn.cfg()
        starts = []
        for sw in cfg.nodes:
            if sw.kind != 'switch':
                continue
            for (y, l) in cfg.succ[sw.id]:
                if l is not None and l[0] == 'case' and l[2] == 8:
                    starts.append(y)
        if not starts:
            continue

        def is_cd(e):
            e = strip_casts(e)
            if e.get('k') != 'call' or callee_name(e) != 'compare_double' or len(e['args']) != 2:
                return False
            flds = [strip_casts(a) for a in e['args']]
            return all(a.get('k') == 'mem' and a['f'] == 'valuedouble' for a in flds) and \
                expr_str(strip_casts(flds[0]['b'])) != expr_str(strip_casts(flds[1]['b']))

        def cd_conj(e):
            e = strip_casts(e)
            if is_cd(e):
                return True
            if e.get('k') == 'bin' and e['op'] == '&&':
                return cd_conj(e['l']) or cd_conj(e['r'])
            return False
        # result flags of an inlined predicate: every non-constant definition is a conjunction with compare_double
        flagdefs = {}
        for a_ in assignments(fn):
            if is_ref(a_['l']) and a_['op'] == '=':
                flagdefs.setdefault(strip_casts(a_['l'])['d'], []).append(a_['r'])
        cd_flags = {d_ for d_, rs_ in flagdefs.items()
                    if any(const_val(r_) is None for r_ in rs_) and all(const_val(r_) is not None or cd_conj(r_) for r_ in rs_)}

        def cd_true_edge(nn, l):
            if nn.kind != 'branch' or l is None or nn.expr is None:
                return False
            e = strip_casts(nn.expr)
            pol = 'T'
            while e.get('k') == 'un' and e['op'] == '!':
                e = strip_casts(e['e'])
                pol = 'F' if pol == 'T' else 'T'
            if e.get('k') == 'ref' and e.get('d') in cd_flags:
                return l[0] == pol
            if e.get('k') != 'call' or callee_name(e) != 'compare_double' or len(e['args']) != 2:
                return False
            flds = [strip_casts(a) for a in e['args']]
            if not all(a.get('k') == 'mem' and a['f'] == 'valuedouble' for a in flds):
                return False
            if expr_str(strip_casts(flds[0]['b'])) == expr_str(strip_casts(flds[1]['b'])):
                return False
            return l[0] == pol
        for start in starts:
            # the arm: what is reachable from its label without running into the next case label
            case_nodes = {m.id for m in cfg.nodes if m.kind == 'nop' and m.name in ('case', 'default')}
            seen = {start}
            work = [start]
            while work:
                x = work.pop()
                for (y, l) in cfg.succ[x]:
                    if cd_true_edge(cfg.nodes[x], l) or y in seen:
                        continue
                    seen.add(y)
                    work.append(y)
            for m in sorted(seen):
                nd = cfg.nodes[m]
                if nd.kind != 'return':
                    continue
                if fname == 'compare_json':
                    if nd.expr is None:
                        continue
                    v = const_val(nd.expr)
                    if v == 0:
                        continue
                    n += 1
                    ok = False
                    if v is None:
                        # return <expression>: fine when compare_double is a conjunct of it
                        def conj(e):
                            e = strip_casts(e)
                            if e.get('k') == 'call' and callee_name(e) == 'compare_double':
                                return True
                            if e.get('k') == 'bin' and e['op'] == '&&':
                                return conj(e['l']) or conj(e['r'])
                            return False
                        ok = conj(nd.expr)
                    R.ob('NUMU', fn, nd.stmt, 'two numbers compare equal only when compare_double says so', ok,
                         'the verdict is a conjunction with compare_double' if ok else
                         'this return is reached from the Number arm without compare_double(a->valuedouble, b->valuedouble) having held: '
                         'numbers that differ (1.25 / 1.5 under equal valueint) count as equal', key='equal:%d' % (0 if ok else nd.line))
                else:
                    # no operation emitted on the way?
                    emitted = False
                    back = {m}
                    # (the arm is small: a return reached without compare_double's true edge must have passed an emission)
                    reach_no_emit = {start}
                    w2 = [start]
                    while w2:
                        x = w2.pop()
                        nx = cfg.nodes[x]
                        if nx.expr is not None and any(c.get('k') == 'call' and callee_name(c) in ('compose_patch',) for c in walk(nx.expr)):
                            continue
                        for (y, l) in cfg.succ[x]:
                            if cd_true_edge(nx, l) or y in reach_no_emit:
                                continue
                            reach_no_emit.add(y)
                            w2.append(y)
                    n += 1
                    ok = m not in reach_no_emit
                    R.ob('NUMU', fn, nd.stmt, 'two numbers produce no patch only when compare_double says they are equal', ok,
                         '' if ok else 'this return is reached from the Number arm without an operation and without compare_double having held',
                         key='nopatch:%d' % (0 if ok else nd.line))
            # returns behind the true edge are fine by construction; count the arm
            n += 1
            R.ob('NUMU', fn, None, 'Number arm of %s examined' % fname, True, '', key='arm:%s' % fname)
    R.floor('NUMU', 'number arms in the utilities', n, 2)
