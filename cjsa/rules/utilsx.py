"""Rules specific to cJSON_Utils.c: TAB18 no narrowing of a decoded array index, ORD1 no use of a looked-up node
after the document it came from was edited."""
from ..facts import (AnalysisBroken, walk, strip_casts, expr_str, is_null_const, const_val, ASSIGN_OPS, callee_name)
from ..dataflow import node_effects
from .common import all_functions, assignments, is_ref, node_containing

LOOKUP = {'get_item_from_pointer', 'cJSONUtils_GetPointer', 'cJSONUtils_GetPointerCaseSensitive'}
# calls that may unlink or release nodes anywhere below their first argument
INVALIDATORS = {'detach_path', 'overwrite_item', 'cJSON_Delete', 'merge_patch', 'apply_patch',
                'cJSONUtils_ApplyPatches', 'cJSONUtils_ApplyPatchesCaseSensitive', 'cJSONUtils_MergePatch',
                'cJSONUtils_MergePatchCaseSensitive'}


def tab18(units, R):
    """An array index decoded from a pointer string (a size_t filled in through an out-parameter) reaches the
    element walker without being converted to a narrower integer type."""
    u = units['cJSON_Utils.c']
    n = 0
    for fn in u.function_list:
        outs = set()
        for c in fn.calls():
            cn = callee_name(c)
            callee = u.functions.get(cn)
            if callee is None:
                continue
            for i, a in enumerate(c['args']):
                a0 = strip_casts(a)
                if a0.get('k') == 'un' and a0['op'] == '&' and is_ref(a0['e']) and i < len(callee.params):
                    pt = u.ty(callee.params[i]['ty'])['s']
                    if 'unsigned long *' in pt or 'size_t *' in pt:
                        outs.add(strip_casts(a0['e'])['d'])
        if not outs:
            continue
        par = fn.parents()
        for x in fn.nodes():
            if x.get('k') != 'ref' or x['d'] not in outs:
                continue
            p = par.get(x['id'])
            if p is not None and p.get('k') == 'un' and p['op'] == '&':
                continue
            n += 1
            src = u.ty(x.get('ty0', x['ty']))
            dst = u.ty(x['ty'])
            ok = True
            why = 'used as %s' % dst['s']
            if dst['c'] == 'int' and src['c'] == 'int' and dst.get('bits', 64) < src.get('bits', 64):
                ok = False
                why = 'implicitly converted from %s to %s' % (src['s'], dst['s'])
            q = p
            while q is not None and q.get('k') == 'cast':
                t = u.ty(q['ty'])
                if t['c'] == 'int' and t.get('bits', 64) < src.get('bits', 64):
                    ok = False
                    why = 'cast to %s: indices >= 2^%d alias small ones' % (t['s'], t.get('bits', 0))
                q = par.get(q['id'])
            R.ob('TAB18', fn, x, 'decoded index %s keeps its full width' % x['n'], ok, why,
                 key='index-width:%s:%s' % (x['n'], 'ok' if ok else why[:30]))
    R.floor('TAB18', 'uses of decoded array indices', n, 3)


def ord1(units, R):
    """A node obtained by resolving a pointer in a document is not used after a call that may unlink or release
    nodes of that same document (the resolved pointer may dangle, and RFC 6902 evaluates 'from' before 'path')."""
    u = units['cJSON_Utils.c']
    n = 0
    for fn in u.function_list:
        cfg = None
        lookups = []
        for a in assignments(fn):
            r = strip_casts(a['r'])
            if a['op'] == '=' and is_ref(a['l']) and r.get('k') == 'call' and callee_name(r) in LOOKUP and r['args']:
                lookups.append((a, strip_casts(a['l']), expr_str(strip_casts(r['args'][0]))))
        for d in fn.locals():
            if 'init' in d:
                r = strip_casts(d['init'])
                if r.get('k') == 'call' and callee_name(r) in LOOKUP and r['args']:
                    lookups.append((d['init'], {'d': d['d'], 'n': d['n']}, expr_str(strip_casts(r['args'][0]))))
        if not lookups:
            continue
        cfg = fn.cfg()
        for (a, var, root) in lookups:
            A = node_containing(cfg, a if 'id' in a else a)
            redefs = {node_containing(cfg, x).id for x in assignments(fn)
                      if is_ref(x['l']) and strip_casts(x['l'])['d'] == var['d'] and x is not a}
            inval = []
            for nd in cfg.nodes:
                re_ = nd.expr if nd.expr is not None else (nd.decl.get('init') if nd.decl else None)
                if re_ is None:
                    continue
                for c in walk(re_):
                    if c.get('k') == 'call' and callee_name(c) in INVALIDATORS and c['args'] and \
                            expr_str(strip_casts(c['args'][0])) == root:
                        inval.append((nd, c))
            uses = []
            for nd in cfg.nodes:
                root_e = nd.expr if nd.expr is not None else (nd.decl.get('init') if nd.decl else None)
                if root_e is None or nd.id == A.id:
                    continue
                for x in walk(root_e):
                    if x.get('k') == 'ref' and x.get('d') == var['d']:
                        # the left-hand side of a re-assignment is not a use
                        if nd.id in redefs and nd.expr is not None and nd.expr.get('k') == 'bin' and strip_casts(nd.expr['l']) is x:
                            continue
                        uses.append((nd, x))
            n += 1
            bad = None
            from_a = cfg.reachable(A.id, stop=redefs)
            for (ind, c) in inval:
                if ind.id not in from_a:
                    continue
                after = cfg.reachable(ind.id, stop=redefs | {A.id})
                for (und, x) in uses:
                    if und.id in after and und.id != ind.id:
                        bad = (c, und)
                        break
                if bad:
                    break
            R.ob('ORD1', fn, a if 'loc' in a else None, 'node %s resolved in %s is not used after %s was edited' % (var['n'], root, root),
                 bad is None, 'no unlinking/releasing call on %s between the lookup and a use' % root if bad is None else
                 '%s(%s, ...) at line %d runs between the lookup and the use at line %d: the resolved node may have been '
                 'moved or released' % (callee_name(bad[0]), root, bad[0]['loc'][0], bad[1].line), key='stale:%s' % var['n'])
    R.floor('ORD1', 'document lookups held in a local', n, 3)


def inputs_only_relinked(units, R, roots=('create_patches', 'generate_merge_patch', 'compare_json')):
    """Patch / merge-patch generation and the patch `test` comparison leave their input documents alone except for
    re-linking by sort_object: no store goes through a pointer derived from the input parameters, and input nodes are
    only handed to callees that take them as const or that are the sorter / the recursion itself."""
    u = units['cJSON_Utils.c']
    n = 0
    MAY_TAKE = {'sort_object', 'create_patches', 'generate_merge_patch', 'compare_json', 'compare_strings', 'compose_patch',
                'cJSON_IsObject', 'cJSON_IsArray', 'cJSON_IsString', 'cJSON_IsNull', 'cJSON_IsNumber'}
    for name in roots:
        fn = u.fn(name)
        ins = {p['d'] for p in fn.params if 'struct cJSON *' in u.ty(p['ty'])['s'] and p['n'] != 'patches'}
        # locals loaded from the inputs
        derived = set(ins)
        changed = True
        while changed:
            changed = False
            for a in assignments(fn):
                if is_ref(a['l']) and strip_casts(a['l'])['d'] not in derived:
                    for x in walk(a['r']):
                        if x.get('k') == 'ref' and x.get('d') in derived and 'cJSON' in u.ty(strip_casts(a['l'])['ty'])['s']:
                            derived.add(strip_casts(a['l'])['d'])
                            changed = True
                            break
            for d in fn.locals():
                if d['d'] not in derived and 'init' in d and 'cJSON' in u.ty(d['ty'])['s']:
                    if any(x.get('k') == 'ref' and x.get('d') in derived for x in walk(d['init'])):
                        derived.add(d['d'])
                        changed = True
        for a in assignments(fn):
            l = strip_casts(a['l'])
            if l.get('k') in ('mem', 'idx') or (l.get('k') == 'un' and l['op'] == '*'):
                b = l
                while b.get('k') in ('mem', 'idx') or (b.get('k') == 'un' and b['op'] == '*'):
                    b = strip_casts(b.get('b') or b.get('e'))
                if b.get('k') == 'ref' and b.get('d') in derived:
                    n += 1
                    R.ob('INP', fn, a, 'no store into an input document: %s' % expr_str(a)[:50], False,
                         'generation must leave both inputs equal in value to what they were', key='store:' + expr_str(l)[:40])
        for c in fn.calls():
            cn = callee_name(c)
            for i, arg in enumerate(c['args']):
                a0 = strip_casts(arg)
                if a0.get('k') == 'ref' and a0.get('d') in derived:
                    n += 1
                    t = u.ty(arg['ty'])
                    callee = u.functions.get(cn)
                    const_param = False
                    if callee is not None and i < len(callee.params):
                        const_param = bool(u.ty(callee.params[i]['ty']).get('pointee_const'))
                    else:
                        for d in u.fdecls:
                            if d['name'] == cn and i < len(d['params']):
                                const_param = bool(u.ty(d['params'][i]['ty']).get('pointee_const'))
                    ok = const_param or cn in MAY_TAKE
                    R.ob('INP', fn, c, 'input node %s handed to %s' % (a0['n'], cn), ok,
                         'const parameter' if const_param else ('sorter/recursion/comparator' if ok else
                         '%s takes a mutable node of an input document' % cn), key='arg:%s:%s' % (cn, a0['n']))
    R.floor('INP', 'uses of input nodes examined', n, 10)
