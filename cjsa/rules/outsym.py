"""OUT2 / OUT3: bytes written after each ensure(p, N) never exceed N, and the offset bookkeeping agrees with what was
written (DESIGN.md section 3).

A path enumeration over the CFG of each printing function with a small symbolic state:
  * linear expressions over the non-negative symbols depth, output_length, raw_length, ... for integer locals, the
    request N of the open grant, the position of every pointer derived from the ensure() result, the extent written
    and the amount added to p->offset;
  * boolean atoms (p->format, item->next, ...) are assigned consistently along a path;
  * counting loops `for (i = 0; i < B; i++) *q++ = c` and index loops `for (i = 0; i < B; i++) q[i] = ..` are
    summarised as B bytes; the escaping loop of print_string_ptr is discharged by TAB5b (count == emit per byte value)
    and contributes `output_length` bytes after the opening quote;
  * anything else that loops or writes in an unrecognised way is analysis-broken (exit 2), never a verdict.
"""
from ..facts import (AnalysisBroken, walk, strip_casts, expr_str, is_null_const, const_val, ASSIGN_OPS, CMP_OPS, callee_name)
from ..dataflow import node_effects, access
from .common import assignments, is_ref, is_mem, cmp_parts
from .outbuf import print_family

PRINTERS = {'print_value', 'print_number', 'print_string', 'print_string_ptr', 'print_array', 'print_object'}


class Lin:
    __slots__ = ('c', 't')

    def __init__(self, c=0, t=None):
        self.c = c
        self.t = dict(t or {})

    def add(self, o, sign=1):
        t = dict(self.t)
        for k, v in o.t.items():
            t[k] = t.get(k, 0) + sign * v
        return Lin(self.c + sign * o.c, {k: v for k, v in t.items() if v})

    def leq(self, o):
        d = o.add(self, -1)
        return d.c >= 0 and all(v >= 0 for v in d.t.values())

    def eq(self, o):
        d = o.add(self, -1)
        return d.c == 0 and not d.t

    def key(self):
        return (self.c, tuple(sorted(self.t.items())))

    def __repr__(self):
        parts = ['%s%s' % ('' if v == 1 else '%d*' % v, k) for k, v in sorted(self.t.items())]
        if self.c or not parts:
            parts.append(str(self.c))
        return ' + '.join(parts)


def lmax(a, b):
    if a.leq(b):
        return b
    if b.leq(a):
        return a
    return None


class PState:
    def __init__(self):
        self.atoms = {}        # condition text -> bool
        self.env = {}          # int local decl id -> Lin
        self.ptr = {}          # pointer local decl id -> Lin position relative to the open grant
        self.grant = None      # (ensure call node, N as Lin)
        self.extent = Lin(0)   # bytes written since the grant was opened (max index + 1)
        self.acct = Lin(0)     # bytes added to p->offset since the grant was opened
        self.nul_at = None     # Lin position of the last NUL written (terminator), if it is the last byte
        self.depth = Lin(0, {'depth': 1})
        self.callee_tail = False   # a printer callee returned: its text (NUL-terminated) sits at offset, unaccounted
        self.clobber = None        # position where a sprintf inside the escaping loop may have left its terminator

    def copy(self):
        s = PState()
        s.atoms = dict(self.atoms)
        s.env = dict(self.env)
        s.ptr = dict(self.ptr)
        s.grant = self.grant
        s.extent = self.extent
        s.acct = self.acct
        s.nul_at = self.nul_at
        s.depth = self.depth
        s.callee_tail = self.callee_tail
        s.clobber = self.clobber
        return s

    def sig(self):
        return (tuple(sorted(self.atoms.items())), tuple(sorted((k, v.key()) for k, v in self.env.items())),
                tuple(sorted((k, v.key()) for k, v in self.ptr.items())), self.grant[0]['id'] if self.grant else None,
                self.extent.key(), self.acct.key(), self.nul_at.key() if self.nul_at else None, self.depth.key(), self.callee_tail,
                self.clobber.key() if self.clobber is not None else None)


class SymExec:
    def __init__(self, u, fn, R):
        self.u = u
        self.fn = fn
        self.R = R
        self.cfg = fn.cfg()
        self.pb = [p for p in fn.params if 'printbuffer' in u.ty(p['ty'])['s']]
        if not self.pb:
            raise AnalysisBroken('OUT2: %s has no printbuffer parameter' % fn.name)
        self.pbd = self.pb[0]['d']
        self.obs = {}
        self.printers = set(PRINTERS)
        self.leaves_tail = {}
        self.delegated = []    # (source parameter index, length parameter index) of copies whose terminator the callers owe
        self.loop_heads = {n.id: n for n in self.cfg.nodes if n.kind == 'nop' and n.name == 'loop-head'}
        self.ngrants = 0

    # ---- expression -> Lin -----------------------------------------------------------------------------------
    def lin(self, e, st):
        e0 = e
        e = strip_casts(e)
        v = const_val(e0)
        if v is None:
            v = const_val(e)
        if v is not None:
            return Lin(v)
        k = e.get('k')
        if k == 'ref':
            if e['d'] in st.env:
                return st.env[e['d']]
            return Lin(0, {e['n']: 1})
        if k == 'mem' and e['f'] == 'depth' and is_ref(e['b']) and strip_casts(e['b'])['d'] == self.pbd:
            return st.depth
        if k == 'bin' and e['op'] in ('+', '-'):
            if self.u.ty(e['l']['ty'])['c'] == 'ptr' or self.u.ty(e['r']['ty'])['c'] == 'ptr':
                return None     # pointer differences are opaque quantities
            a, b = self.lin(e['l'], st), self.lin(e['r'], st)
            if a is None or b is None:
                return None
            return a.add(b, 1 if e['op'] == '+' else -1)
        if k == 'cond':
            t = self.atom_truth(e['c'], st)
            if t is None:
                return None
            return self.lin(e['t'] if t else e['e'], st)
        if k == 'call' and callee_name(e) == 'strlen':
            return Lin(0, {'strlen(%s)' % expr_str(strip_casts(e['args'][0])): 1})
        if k == 'mem' and self.u.ty(e['ty'])['c'] in ('int', 'bool', 'enum'):
            # an integer field used as a number: a quantity of its own (its truth says nothing about its size)
            return Lin(0, {expr_str(e): 1})
        if (k == 'bin' and e['op'] in ('==', '!=')) or (k == 'un' and e['op'] == '!'):
            # a condition used as a number is 1 or 0 according to what this path knows about it
            t = self.atom_truth(e, st)
            if t is not None:
                return Lin(1 if t else 0)
        return None

    def atom_key(self, e):
        return self.canon(e)[0]

    def canon(self, e):
        """(key, polarity): `E`, `E != 0`, `E != NULL` -> ('nz:E', True); `!E`, `E == 0`, `E == NULL` -> ('nz:E', False)"""
        e = strip_casts(e)
        if e.get('k') == 'un' and e['op'] == '!':
            k, p = self.canon(e['e'])
            return k, not p
        if e.get('k') == 'bin' and e['op'] in ('==', '!='):
            for (x, y) in ((e['l'], e['r']), (e['r'], e['l'])):
                if is_null_const(y) or const_val(y) == 0:
                    k, p = self.canon(x)
                    return k, (p if e['op'] == '!=' else not p)
        if e.get('k') == 'ref' and e.get('dk') == 'local':
            al = self.flag_aliases().get(e['d'])
            if al is not None:
                return self.canon(al)       # cJSON_bool format = p->format; ... if (format): the same condition
        return 'nz:' + expr_str(e), True

    def flag_aliases(self):
        """integer locals whose every non-constant definition is the same field of the print buffer that this function never stores to"""
        if getattr(self, '_flag_aliases', None) is not None:
            return self._flag_aliases
        defs = {}
        for d_ in self.fn.locals():
            if 'init' in d_ and self.u.ty(d_['ty'])['c'] in ('int', 'bool'):
                defs.setdefault(d_['d'], []).append(d_['init'])
        stored = set()
        for a_ in self.fn.nodes():
            if a_.get('k') == 'bin' and a_.get('op') in ASSIGN_OPS:
                l_ = strip_casts(a_['l'])
                if l_.get('k') == 'ref' and l_['d'] in defs or (l_.get('k') == 'ref' and self.u.ty(l_.get('ty0', l_['ty']))['c'] in ('int', 'bool')):
                    defs.setdefault(l_['d'], []).append(a_['r'] if a_['op'] == '=' else None)
                elif l_.get('k') == 'mem':
                    stored.add(l_['f'])
            elif a_.get('k') == 'un' and a_.get('op') in ('pre++', 'pre--', 'post++', 'post--'):
                t_ = strip_casts(a_['e'])
                if t_.get('k') == 'ref':
                    defs.setdefault(t_['d'], []).append(None)
                elif t_.get('k') == 'mem':
                    stored.add(t_['f'])
        out = {}
        for d_, rs_ in defs.items():
            real = [r_ for r_ in rs_ if r_ is None or const_val(r_) is None]
            if not real or any(r_ is None for r_ in real):
                continue
            ms = [strip_casts(r_) for r_ in real]
            if all(m_.get('k') == 'mem' and m_.get('arrow') and m_['f'] not in stored and is_ref(m_['b']) and
                   strip_casts(m_['b']).get('d') == self.pbd for m_ in ms) and len({expr_str(m_) for m_ in ms}) == 1 and ms[0]['f'] == 'format':
                out[d_] = ms[0]
        self._flag_aliases = out
        return out

    def atom_truth(self, e, st):
        k, p = self.canon(e)
        t = st.atoms.get(k)
        return None if t is None else (t == p)

    def undetermined_atoms(self, e, st):
        """conditions used as numbers (`(size_t)(x != NULL)`, `!x`) inside e whose truth this path has not fixed yet"""
        out = []

        def go(x, value_ctx):
            x = strip_casts(x)
            k = x.get('k')
            if k == 'bin' and x['op'] in ('==', '!=') and (is_null_const(x['l']) or is_null_const(x['r']) or
                                                           const_val(x['l']) == 0 or const_val(x['r']) == 0):
                if value_ctx and self.atom_truth(x, st) is None and not self.decidable(x, st):
                    out.append(x)
                return
            if k == 'un' and x['op'] == '!':
                if value_ctx and self.atom_truth(x, st) is None:
                    out.append(x)
                return
            if k == 'bin' and x['op'] in ('+', '-', '*'):
                go(x['l'], True)
                go(x['r'], True)
            elif k == 'bin' and x['op'] in ASSIGN_OPS:
                go(x['r'], True)
            elif k == 'call':
                for a in x.get('args', []):
                    go(a, True)
        go(e, False)
        return out

    def decidable(self, x, st):
        p = cmp_parts(x)
        return p is not None and is_ref(p[0]) and strip_casts(p[0])['d'] in st.env and not st.env[strip_casts(p[0])['d']].t

    # ---- obligations ---------------------------------------------------------------------------------------------
    def ob(self, rule, node, what, ok, detail, key):
        oid = (rule, key)
        old = self.obs.get(oid)
        if old is None or (old[3] and not ok):
            self.obs[oid] = (rule, node, what, ok, detail, key)

    def write(self, st, node, pos, nbytes, last_is_nul, what):
        """bytes [pos, pos+nbytes) are written under the open grant"""
        if st.grant is None:
            self.ob('OUT2', node, 'write %s is covered by an ensure() request' % what, False, 'no capacity request is open on this path',
                    'nogrant:' + what)
            return
        end = pos.add(nbytes)
        if st.clobber is not None and pos.leq(st.clobber) and st.clobber.add(Lin(1)).leq(end):
            st.clobber = None      # the stray terminator is overwritten
        m = lmax(st.extent, end)
        if m is None:
            raise AnalysisBroken('OUT2: %s: cannot order extents %r and %r' % (self.fn.where(node), st.extent, end))
        st.extent = m
        N = st.grant[1]
        ok = end.leq(N)
        g = st.grant[0]
        self.ob('OUT2', node, '%s stays within the %s byte(s) requested at line %d' % (what, N, g['loc'][0]), ok,
                'writes up to byte %s of the grant' % end if ok else 'writes up to byte %s but only %s were requested' % (end, N),
                'w:%d:%s' % (0, what))
        if last_is_nul and end.eq(st.extent):
            st.nul_at = end.add(Lin(-1))
        elif st.nul_at is not None and not st.nul_at.add(Lin(1)).eq(st.extent):
            st.nul_at = None

    def close_grant(self, st, node, why):
        """Called before the next ensure / printer call / return true: everything before the terminator is accounted."""
        if st.grant is None:
            return
        g = st.grant[0]
        body = st.extent
        if st.nul_at is not None and st.nul_at.add(Lin(1)).eq(st.extent):
            body = st.nul_at
        if why == 'return' and st.clobber is not None:
            self.ob('OUT3', node, 'no terminator written inside the escaping loop survives in the text', False,
                    'sprintf may leave a NUL at byte %s of the grant and nothing overwrites it afterwards (a string ending in a '
                    'control character would lose what was stored there before the loop)' % st.clobber, 'clobber')
        if why == 'return':
            # a terminator position is a position: it is >= 0 whatever the symbols in it are
            # a function that accounts for everything it wrote on every successful return leaves nothing for update_offset
            # (OUT8's summary); but where a caller measures with update_offset after the call all the same (because other
            # printers it dispatches to do leave their text), strlen starts at the offset and needs a terminator there
            all_accounted = self.leaves_tail.get(self.fn.name) is False and not getattr(self, 'measured', False)
            ok = (st.acct.leq(body) or (st.nul_at is not None and st.acct.eq(Lin(0)))) and \
                ((st.acct.eq(st.extent) and all_accounted) or (st.nul_at is not None))
            self.ob('OUT3', node, 'text left for the caller\'s update_offset is zero-terminated (grant of line %d)' % g['loc'][0], ok,
                    'accounted %s, written %s, terminator %s' % (st.acct, st.extent, 'at %s' % st.nul_at if st.nul_at is not None else
                                                                 'missing' + ('' if ok or all_accounted else
                                                                              ': a caller of %s measures what was printed with update_offset (strlen from the '
                                                                              'offset), which then runs into whatever the buffer held before' % self.fn.name)),
                    'tail:%d' % g['loc'][0])
        else:
            ok = st.acct.eq(body)
            self.ob('OUT3', node, 'offset advanced by exactly the bytes written before the next request (grant of line %d)' % g['loc'][0], ok,
                    'offset += %s, bytes written before the terminator: %s' % (st.acct, body), 'acct:%d:%s' % (g['loc'][0], why))
        st.grant = None
        st.ptr = {}
        st.extent = Lin(0)
        st.acct = Lin(0)
        st.nul_at = None
        st.clobber = None

    # ---- statements -----------------------------------------------------------------------------------------------------
    def ptr_pos(self, e, st):
        """position of a pointer expression derived from the grant: (Lin) or None"""
        e = strip_casts(e)
        if e.get('k') == 'un' and e['op'] in ('post++', 'post--'):
            e = strip_casts(e['e'])
        if e.get('k') == 'ref' and e['d'] in st.ptr:
            return st.ptr[e['d']]
        if e.get('k') == 'bin' and e['op'] == '+':
            b = self.ptr_pos(e['l'], st)
            o = self.lin(e['r'], st)
            if b is not None and o is not None:
                return b.add(o)
        return None

    def exec_node(self, node, st):
        """Returns list of states (usually one)."""
        if node.kind == 'decl':
            d = node.decl
            t = self.u.ty(d['ty'])
            if 'init' in d and t['c'] == 'int':
                pending = self.undetermined_atoms({'k': 'bin', 'op': '=', 'l': {'k': 'ref'}, 'r': d['init']}, st)
                if pending:
                    key, pol = self.canon(pending[0])
                    out = []
                    for tv in (True, False):
                        s1 = st.copy()
                        s1.atoms[key] = tv
                        out.extend(self.exec_node(node, s1))
                    return out
            if 'init' in d:
                if t['c'] == 'int':
                    v = self.lin(d['init'], st)
                    st.env[d['d']] = v if v is not None else Lin(0, {d['n']: 1})
                elif t['c'] == 'ptr':
                    self.assign_ptr(st, d['d'], d['init'], node)
            return [st]
        if node.expr is None:
            return [st]
        pending = self.undetermined_atoms(node.expr, st) if node.kind == 'stmt' else []
        if pending:
            key, pol = self.canon(pending[0])
            out = []
            for tv in (True, False):
                s1 = st.copy()
                s1.atoms[key] = tv
                out.extend(self.exec_node(node, s1))
            return out
        for ev in node_effects(node):
            if ev.kind == 'store':
                self.do_store(ev, st, node)
            elif ev.kind == 'incdec':
                self.do_incdec(ev, st)
            elif ev.kind == 'call':
                self.do_call(ev.node, st, node)
        return [st]

    def assign_ptr(self, st, did, rhs, node):
        r = strip_casts(rhs)
        if r.get('k') == 'call' and callee_name(r) == 'ensure':
            self.close_grant(st, r, 'ensure')
            N = self.lin(r['args'][1], st)
            if N is None:
                raise AnalysisBroken('OUT2: %s: request %s is not a linear expression' % (self.fn.where(r), expr_str(r['args'][1])[:60]))
            st.grant = (r, N)
            st.ptr = {did: Lin(0)}
            st.callee_tail = False
            self.ngrants += 1
            return
        p = self.ptr_pos(rhs, st)
        if p is not None:
            st.ptr[did] = p
        else:
            st.ptr.pop(did, None)

    def do_store(self, ev, st, node):
        a = ev.node
        l = ev.lhs
        if is_ref(l):
            d = strip_casts(l)
            t = self.u.ty(d.get('ty0', d['ty']))
            if t['c'] == 'ptr':
                if a['op'] == '=':
                    self.assign_ptr(st, d['d'], a['r'], node)
                elif a['op'] in ('+=', '-=') and d['d'] in st.ptr:
                    k = self.lin(a['r'], st)
                    if k is None:
                        raise AnalysisBroken('OUT2: %s: pointer advanced by a non-linear amount' % self.fn.where(a))
                    st.ptr[d['d']] = st.ptr[d['d']].add(k, 1 if a['op'] == '+=' else -1)
            elif t['c'] == 'int':
                if a['op'] == '=':
                    v = self.lin(a['r'], st)
                    st.env[d['d']] = v if v is not None else Lin(0, {d['n']: 1})
                elif a['op'] in ('+=', '-=') and d['d'] in st.env:
                    k = self.lin(a['r'], st)
                    st.env[d['d']] = st.env[d['d']].add(k, 1 if a['op'] == '+=' else -1) if k is not None else None
                    if st.env[d['d']] is None:
                        del st.env[d['d']]
                else:
                    st.env.pop(d['d'], None)
            return
        if is_mem(l, 'offset') and is_ref(strip_casts(l)['b']) and strip_casts(strip_casts(l)['b'])['d'] == self.pbd:
            if a['op'] == '+=':
                k = self.lin(a['r'], st)
                if k is None:
                    raise AnalysisBroken('OUT3: %s: offset advanced by a non-linear amount' % self.fn.where(a))
                st.acct = st.acct.add(k)
            else:
                raise AnalysisBroken('OUT3: %s: offset assigned' % self.fn.where(a))
            return
        if is_mem(l, 'depth'):
            return
        acc = access(l)
        if acc is None:
            return
        base, idx = acc
        bpos = self.ptr_pos(base, st)
        if bpos is None:
            b = strip_casts(base)
            if b.get('k') == 'ref' and self.u.ty(b.get('ty0', b['ty']))['c'] == 'array':
                return      # local scratch array
            if b.get('k') == 'ref' and self.u.ty(b['ty'])['c'] == 'ptr' and 'char' in self.u.ty(b['ty'])['s'] and \
                    not self.u.ty(b['ty']).get('pointee_const'):
                self.ob('OUT2', a, 'write through %s is covered by an ensure() request' % b['n'], False,
                        'pointer is not derived from the open grant on this path', 'nogrant:%s' % b['n'])
            return
        i = Lin(idx) if isinstance(idx, int) else self.lin(idx, st)
        if i is None:
            raise AnalysisBroken('OUT2: %s: index %s is not linear' % (self.fn.where(a), expr_str(idx)[:40]))
        v = const_val(a['r']) if a['op'] == '=' else None
        self.write(st, a, bpos.add(i), Lin(1), v == 0, expr_str(a)[:40])

    def do_incdec(self, ev, st):
        t = strip_casts(ev.lhs)
        if t.get('k') == 'ref':
            if t['d'] in st.ptr:
                st.ptr[t['d']] = st.ptr[t['d']].add(Lin(ev.delta))
            elif t['d'] in st.env:
                st.env[t['d']] = st.env[t['d']].add(Lin(ev.delta))
            return
        if is_mem(t, 'offset') and is_ref(t['b']) and strip_casts(t['b'])['d'] == self.pbd:
            st.acct = st.acct.add(Lin(ev.delta))
        elif is_mem(t, 'depth') and is_ref(t['b']) and strip_casts(t['b'])['d'] == self.pbd:
            st.depth = st.depth.add(Lin(ev.delta))

    def do_call(self, c, st, node):
        cn = callee_name(c)
        args = c['args']
        if cn == 'ensure':
            # handled at the assignment (the result must be stored)
            par = self.fn.parents().get(c['id'])
            while par is not None and par.get('k') == 'cast':
                par = self.fn.parents().get(par['id'])
            ok = par is not None and ((par.get('k') == 'bin' and par['op'] == '=') or par.get('k') is None)
            if not ok and not any(d.get('init') is not None and strip_casts(d['init']) is c for d in self.fn.locals()):
                self.ob('OUT2', c, 'result of ensure() is kept', False, 'the granted pointer is not stored', 'ensure-unused')
            return
        if cn in self.printers:
            self.close_grant(st, c, 'call')
            # a printer normally leaves its (zero-terminated) text for the caller's update_offset; a helper that accounts
            # for everything it wrote before it returns successfully (OUT8's summary) leaves nothing
            st.callee_tail = bool(self.leaves_tail.get(cn, True))
            return
        if cn == 'update_offset':
            st.callee_tail = False
            return
        if cn == 'strcpy' and args:
            p = self.ptr_pos(args[0], st)
            src = strip_casts(args[1])
            if p is not None and src.get('k') == 'str':
                self.write(st, c, p, Lin(len(src['bytes']) + 1), True, 'strcpy %s' % expr_str(src))
            elif p is not None:
                raise AnalysisBroken('OUT2: %s: strcpy of a non-literal into the output' % self.fn.where(c))
        elif cn == 'memcpy' and args:
            p = self.ptr_pos(args[0], st)
            if p is not None:
                n = self.lin(args[2], st)
                if n is None:
                    raise AnalysisBroken('OUT2: %s: memcpy length is not linear' % self.fn.where(c))
                # a copy of strlen(x)+1 bytes of x carries its terminator
                src = expr_str(strip_casts(args[1]))
                nul = n.t.get('strlen(%s)' % src) == 1 and n.c == 1
                lit = strip_casts(args[1])
                if lit.get('k') == 'ref' and self.u.ty(lit.get('ty0', lit['ty']))['c'] == 'array' and 'const' in self.u.ty(lit.get('ty0', lit['ty']))['s']:
                    # a constant array spelled as a string literal (static const char word[] = "null")
                    dl = [d_ for d_ in list(self.fn.locals()) + list(getattr(self.u, 'globals', []) or []) if d_.get('d') == lit.get('d')]
                    if dl and 'init' in dl[0] and strip_casts(dl[0]['init']).get('k') == 'str':
                        lit = strip_casts(dl[0]['init'])
                if lit.get('k') == 'str' and not n.t:
                    # a literal copied together with its terminator (memcpy(p, "..", sizeof("..")))
                    if n.c > len(lit['bytes']) + 1:
                        self.ob('OUT2', c, 'memcpy reads %s bytes from a literal of %d' % (n.c, len(lit['bytes']) + 1), False,
                                'reads past the literal', 'memcpy-lit:%d' % c['loc'][0])
                    nul = (n.c == len(lit['bytes']) + 1) or (n.c >= 1 and n.c <= len(lit['bytes']) and lit['bytes'][n.c - 1] == 0)
                # a local array that sprintf filled, copied with the terminator sprintf put behind the text:
                # length = sprintf(A, ..); memcpy(p, A, length + 1)
                a0_ = strip_casts(args[1])
                if not nul and a0_.get('k') == 'ref' and self.u.ty(a0_.get('ty0', a0_['ty']))['c'] == 'array' and n.c == 1 and len(n.t) == 1 \
                        and list(n.t.values()) == [1]:
                    lname = next(iter(n.t))
                    defs_ = [a_ for a_ in self.fn.nodes() if a_.get('k') == 'bin' and a_.get('op') in ASSIGN_OPS and
                             strip_casts(a_['l']).get('k') == 'ref' and strip_casts(a_['l'])['n'] == lname]
                    cfg_ = self.fn.cfg()
                    mnode = cfg_.node_of_expr(c['id'])
                    dnodes = {a_['id']: cfg_.node_of_expr(a_['id']) for a_ in defs_}
                    if mnode is not None and all(v is not None for v in dnodes.values()):
                        allids = {v.id for v in dnodes.values()}
                        reaching = [a_ for a_ in defs_ if mnode.id in cfg_.reachable(dnodes[a_['id']].id, stop=allids - {dnodes[a_['id']].id})]
                        def fills_with_terminator(a_):
                            if a_['op'] != '=':
                                return False
                            r_ = strip_casts(a_['r'])
                            if r_.get('k') == 'call' and callee_name(r_) == 'sprintf' and r_['args'] and \
                                    strip_casts(r_['args'][0]).get('d') == a0_['d']:
                                return True
                            # length = strlen of a literal that was copied into the array together with its terminator:
                            # memcpy(A, "null", sizeof("null")); length = sizeof("null") - 1;
                            k_ = const_val(a_['r'])
                            if k_ is not None:
                                for m_ in self.fn.calls():
                                    if callee_name(m_) in ('memcpy', 'strcpy') and m_['args'] and strip_casts(m_['args'][0]).get('d') == a0_['d'] and \
                                            strip_casts(m_['args'][1]).get('k') == 'str' and len(strip_casts(m_['args'][1])['bytes']) == k_ and \
                                            (callee_name(m_) == 'strcpy' or const_val(m_['args'][2]) == k_ + 1):
                                        mn_ = cfg_.node_of_expr(m_['id'])
                                        dn_ = dnodes[a_['id']]
                                        if mn_ is not None and (dn_.id in cfg_.reachable(mn_.id)) and not any(
                                                x_.id != mn_.id and x_.id in cfg_.reachable(mn_.id, stop={dn_.id}) and any(
                                                    c2_.get('k') == 'call' and c2_ is not m_ and c2_.get('args') and
                                                    strip_casts(c2_['args'][0]).get('d') == a0_['d'] for c2_ in walk(getattr(x_, 'expr', None) or {}))
                                                for x_ in cfg_.nodes):
                                            return True
                            return False
                        if reaching and all(fills_with_terminator(a_) for a_ in reaching):
                            nul = True
                # an entry of a constant table of {text, length} records, copied with length + 1 bytes: the terminator comes along
                # if every entry of the tables the pointer can stand in has length == strlen(text)
                if not nul and self._table_entry_with_terminator(strip_casts(args[1]), n):
                    nul = True
                # the scratch array copied with a constant length on this path: the literal that was copied into it with its
                # terminator (memcpy(A, "null", 5); ... memcpy(p, A, 5))
                if not nul and a0_.get('k') == 'ref' and self.u.ty(a0_.get('ty0', a0_['ty']))['c'] == 'array' and not n.t:
                    for m_ in self.fn.calls():
                        if callee_name(m_) in ('memcpy', 'strcpy') and m_ is not c and m_['args'] and strip_casts(m_['args'][0]).get('d') == a0_['d'] and \
                                strip_casts(m_['args'][1]).get('k') == 'str' and len(strip_casts(m_['args'][1])['bytes']) + 1 == n.c and \
                                (callee_name(m_) == 'strcpy' or const_val(m_['args'][2]) == n.c):
                            nul = True
                # source and length both handed in by the caller: whether the last byte copied is the terminator is the
                # callers' business (checked at every call site by out23)
                pidx = {p['d']: i for i, p in enumerate(self.fn.params)}
                s0 = strip_casts(args[1])
                n0 = strip_casts(args[2])
                if not nul and s0.get('k') == 'ref' and s0.get('d') in pidx and n0.get('k') == 'ref' and n0.get('d') in pidx:
                    self.delegated.append((pidx[s0['d']], pidx[n0['d']]))
                    nul = True
                self.write(st, c, p, n, nul, 'memcpy of %s bytes' % n)
        elif cn == 'memset' and len(args) == 3:
            p = self.ptr_pos(args[0], st)
            if p is not None:
                n = self.lin(args[2], st)
                if n is None:
                    raise AnalysisBroken('OUT2: %s: memset length is not linear' % self.fn.where(c))
                fill = const_val(args[1])
                self.write(st, c, p, n, fill == 0 and not n.t and n.c >= 1, 'memset of %s bytes' % n)
        elif cn == 'sprintf' and args:
            p = self.ptr_pos(args[0], st)
            if p is not None:
                raise AnalysisBroken('OUT2: %s: sprintf into the output outside the escaping loop' % self.fn.where(c))

    def _table_entry_with_terminator(self, src, n):
        if src.get('k') != 'mem' or n.c != 1 or len(n.t) != 1 or list(n.t.values()) != [1]:
            return False
        base = strip_casts(src['b'])
        term = next(iter(n.t))
        u = self.u
        if base.get('k') != 'ref' or base.get('dk') != 'local':
            return False
        rec = None
        for r in u.records.values():
            names = [f['n'] for f in r['fields']]
            if src['f'] in names and any(term == '%s%s%s' % (expr_str(base), '->' if src.get('arrow') else '.', f_) for f_ in names):
                rec = r
                flen = [f_ for f_ in names if term == '%s%s%s' % (expr_str(base), '->' if src.get('arrow') else '.', f_)][0]
                break
        if rec is None:
            return False
        names = [f['n'] for f in rec['fields']]
        it, il = names.index(src['f']), names.index(flen)
        # where the pointer can stand: only in constant tables of the unit
        defs = [d_['init'] for d_ in self.fn.locals() if d_['d'] == base['d'] and 'init' in d_ and not is_null_const(d_['init'])]
        defs += [a_['r'] for a_ in self.fn.nodes() if a_.get('k') == 'bin' and a_.get('op') in ASSIGN_OPS and
                 strip_casts(a_['l']).get('k') == 'ref' and strip_casts(a_['l']).get('d') == base['d'] and not is_null_const(a_['r'])]
        tables = set()
        for d_ in defs:
            x = strip_casts(d_)
            if not (x.get('k') == 'un' and x['op'] == '&'):
                return False
            x = strip_casts(x['e'])
            while x.get('k') == 'idx':
                x = strip_casts(x['b'])
            if not (x.get('k') == 'ref' and x.get('dk') == 'global'):
                return False
            tables.add(x['n'])
        if not tables:
            return False

        def entries(init):
            if init.get('k') != 'initlist':
                return
            inits = init.get('inits', [])
            if len(inits) == len(names) and strip_casts(inits[it]).get('k') == 'str':
                yield inits
                return
            for sub in inits:
                for e_ in entries(sub):
                    yield e_
        for g in u.globals:
            if g['n'] not in tables:
                continue
            if not g.get('const') or 'init' not in g:
                return False
            got = list(entries(g['init']))
            if not got:
                return False
            for e_ in got:
                text = bytes(strip_casts(e_[it])['bytes'])
                if const_val(e_[il]) != len(text) or 0 in text:
                    self.ob('OUT3', e_[il], 'a table entry records the length of its text', False,
                            'entry "%s" of %s records %s' % (text.decode('latin1'), g['n'], const_val(e_[il])), 'table:%s' % g['n'])
                    return False
        return True

    # ---- loops ------------------------------------------------------------------------------------------------------------
    def loop_summary(self, head, st):
        """Recognise a counting/index loop at `head`; returns (exit node id, state) or None."""
        stmt = head.stmt
        if stmt is not None and stmt.get('k') == 'while' and 'c' in stmt and stmt.get('body', {}).get('k') == 'compound' and \
                stmt['body'].get('body') and not any(x.get('k') == 'continue' for x in walk(stmt['body'])):
            # while (i < B) { ...; i++; } is the for loop with that step, as long as nothing jumps over the step
            last = stmt['body']['body'][-1]
            l0 = strip_casts(last)
            if l0.get('k') == 'un' and l0['op'] in ('post++', 'pre++') and is_ref(l0['e']):
                stmt = {'k': 'for', 'c': stmt['c'], 'inc': last, 'id': stmt['id'], 'loc': stmt.get('loc'),
                        'body': {'k': 'compound', 'id': stmt['body']['id'], 'loc': stmt['body'].get('loc'), 'body': stmt['body']['body'][:-1]}}
        if stmt is None or stmt.get('k') != 'for' or 'c' not in stmt or 'inc' not in stmt:
            return None
        p = None
        c = strip_casts(stmt['c'])
        if not (c.get('k') == 'bin' and c['op'] in ('<', '!=') and is_ref(c['l'])):
            return None
        ivar = strip_casts(c['l'])
        incs = []

        def flat_inc(x):
            x = strip_casts(x)
            if x.get('k') == 'bin' and x['op'] == ',':
                flat_inc(x['l'])
                flat_inc(x['r'])
            else:
                incs.append(x)
        flat_inc(stmt['inc'])
        inc_vars = []
        for x in incs:
            if x.get('k') == 'un' and x['op'] in ('post++', 'pre++') and is_ref(x['e']):
                inc_vars.append(strip_casts(x['e'])['d'])
            else:
                return None
        if ivar['d'] not in inc_vars:
            return None
        pointer_loop = self.u.ty(ivar['ty'])['c'] == 'ptr'
        if pointer_loop:
            # for (p = base; p < base + B; p++): B iterations
            init = stmt.get('init')
            init = strip_casts(init) if init is not None else None
            if not (init is not None and init.get('k') == 'bin' and init['op'] == '=' and is_ref(init['l']) and
                    strip_casts(init['l'])['d'] == ivar['d']):
                return None
            base = expr_str(strip_casts(init['r']))
            r = strip_casts(c['r'])
            if not (r.get('k') == 'bin' and r['op'] == '+' and expr_str(strip_casts(r['l'])) == base):
                return None
            B = self.lin(r['r'], st)
            if B is None:
                return None
        else:
            B = self.lin(c['r'], st)
            if st.env.get(ivar['d']) is None or not st.env[ivar['d']].eq(Lin(0)) or B is None:
                return None
        lockstep = [d for d in inc_vars if d != ivar['d']]
        # body: stores through a grant pointer, either `*q++ = c` (cursor) or q[i] = .. (index)
        cursor_steps = 0
        index_writes = False
        lock_writes = False
        qd = None
        for x in walk(stmt['body']):
            k = x.get('k')
            if k == 'bin' and x['op'] in ASSIGN_OPS:
                acc = access(x['l'])
                if acc is None:
                    if is_ref(x['l']):
                        return None
                    continue
                base, idx = acc
                b = strip_casts(base)
                if not (b.get('k') == 'ref' and b['d'] in st.ptr):
                    if b.get('k') == 'ref' and self.u.ty(b.get('ty0', b['ty']))['c'] == 'array':
                        continue
                    return None
                qd = b['d']
                lhs = strip_casts(x['l'])
                if lhs.get('k') == 'un' and strip_casts(lhs['e']).get('k') == 'un' and strip_casts(lhs['e'])['op'] == 'post++':
                    cursor_steps += 1
                elif not isinstance(idx, int) and is_ref(idx) and strip_casts(idx)['d'] == ivar['d']:
                    index_writes = True
                elif idx == 0 and b['d'] in lockstep:
                    lock_writes = True
                else:
                    return None
            elif k == 'call' or k in ('while', 'for', 'do', 'goto', 'return'):
                return None
        if qd is None:
            return None
        st = st.copy()
        if lock_writes and not cursor_steps and not index_writes:
            # *q = ...; with q advanced once per iteration in the loop header
            self.write(st, stmt, st.ptr[qd], B, False, 'loop of %s iteration(s), one byte each through a cursor stepped in the loop header' % B)
            st.ptr[qd] = st.ptr[qd].add(B)
        elif cursor_steps and not index_writes:
            n = Lin(B.c * cursor_steps, {k2: v * cursor_steps for k2, v in B.t.items()})
            self.write(st, stmt, st.ptr[qd], n, False, 'loop of %s iteration(s) x %d byte(s)' % (B, cursor_steps))
            st.ptr[qd] = st.ptr[qd].add(n)
        elif index_writes and not cursor_steps:
            self.write(st, stmt, st.ptr[qd], B, False, 'indexed loop over %s byte(s)' % B)
        else:
            return None
        if not pointer_loop:
            st.env[ivar['d']] = B
        # exit: the false edge of the loop condition
        exits = []
        body_nodes = self.cfg.reachable(head.id)
        for n in self.cfg.nodes:
            if n.kind == 'branch' and strip_casts(n.expr) is c:
                for (y, l) in self.cfg.succ[n.id]:
                    if l and l[0] == 'F':
                        exits.append(y)
        if len(exits) != 1:
            return None
        return exits[0], st

    def escape_loop(self, head, st):
        """print_string_ptr: the data-dependent emitting loop, discharged by TAB5b."""
        stmt = head.stmt
        if self.fn.name != 'print_string_ptr' or stmt is None or stmt.get('k') != 'for':
            return None
        writes = [x for x in walk(stmt['body']) if x.get('k') == 'bin' and x['op'] == '=' and access(x['l']) is not None]
        if not writes:
            return None
        qds = set()
        for x in writes:
            b = strip_casts(access(x['l'])[0])
            if b.get('k') == 'un':
                b = strip_casts(b['e'])
            if b.get('k') == 'ref' and b['d'] in st.ptr:
                qds.add(b['d'])
        if len(qds) != 1:
            return None
        qd = qds.pop()
        ol = [d for d in self.fn.locals() if d['n'] == 'output_length']
        if not ol or ol[0]['d'] not in st.env:
            return None
        st = st.copy()
        n = st.env[ol[0]['d']]
        self.write(st, stmt, st.ptr[qd], n, False, 'escaping loop: output_length byte(s) (count == emit by TAB5b)')
        # a \\uXXXX escape is written with sprintf, whose terminator lands on the byte after the escape: when the escape
        # is the last character that is the byte following the loop's output
        if any(x.get('k') == 'call' and callee_name(x) == 'sprintf' for x in walk(stmt['body'])):
            st.clobber = st.ptr[qd].add(n)
        # count == emit for every byte value (TAB5b) and both loops scan the same string: the cursor ends output_length bytes on
        st.ptr[qd] = st.ptr[qd].add(n)
        c = strip_casts(stmt['c'])
        exits = []
        for nd in self.cfg.nodes:
            if nd.kind == 'branch' and (strip_casts(nd.expr) is c or (cmp_parts(nd.expr) and strip_casts(nd.expr) is c)):
                for (y, l) in self.cfg.succ[nd.id]:
                    if l and l[0] == 'F':
                        exits.append(y)
        if len(exits) != 1:
            return None
        return exits[0], st

    # ---- driver -------------------------------------------------------------------------------------------------------------------
    def run(self):
        cfg = self.cfg
        seen = set()
        work = [(cfg.entry.id, PState())]
        steps = 0
        while work:
            nid, st = work.pop()
            steps += 1
            if steps > 200000:
                raise AnalysisBroken('OUT2: path enumeration of %s does not finish' % self.fn.name)
            sig = (nid, st.sig())
            if sig in seen:
                continue
            seen.add(sig)
            node = cfg.nodes[nid]
            if nid in self.loop_heads:
                summ = self.loop_summary(node, st) or self.escape_loop(node, st)
                if summ is not None:
                    work.append(summ)
                    continue
                # any other loop: forget what its body may change (integers become opaque non-negative symbols,
                # grant pointers moved inside become unknown, so a write through them afterwards is reported)
                body = cfg.reachable(nid) & cfg.reachable(nid, forward=False)
                st = st.copy()
                for b in body:
                    bn = cfg.nodes[b]
                    for ev in node_effects(bn):
                        tgt = None
                        if ev.kind in ('store', 'incdec') and is_ref(ev.lhs):
                            tgt = strip_casts(ev.lhs)
                        if tgt is None:
                            continue
                        if tgt['d'] in st.ptr:
                            st.ptr.pop(tgt['d'])
                        elif self.u.ty(tgt.get('ty0', tgt['ty']))['c'] == 'int':
                            st.env[tgt['d']] = Lin(0, {tgt['n']: 1})
            if node.kind == 'return':
                if node.expr is not None and const_val(node.expr) not in (0, None):
                    self.close_grant(st, node.stmt, 'return')
                continue
            st = st.copy()
            # value-context selections (`format ? 2 : 1`) on atoms that are still open: decide them both ways
            root = node.expr if node.expr is not None else (node.decl.get('init') if node.decl else None)
            forked = [st]
            if root is not None:
                for x in walk(root):
                    if x.get('k') == 'cond' and x.get('id') not in node.skip:
                        key = self.atom_key(x['c'] if not (strip_casts(x['c']).get('k') == 'un' and strip_casts(x['c'])['op'] == '!') else strip_casts(x['c'])['e'])
                        nxt = []
                        for s0 in forked:
                            if key in s0.atoms:
                                nxt.append(s0)
                            else:
                                for tv in (True, False):
                                    s1 = s0.copy()
                                    s1.atoms[key] = tv
                                    nxt.append(s1)
                        forked = nxt
            outs = []
            for s0 in forked:
                outs.extend(self.exec_node(node, s0))
            for s2 in outs:
                for (y, label) in cfg.succ[nid]:
                    s3 = s2
                    if label is not None and label[0] in ('T', 'F') and node.kind == 'branch':
                        s3 = self.branch(node, label, s2)
                        if s3 is None:
                            continue
                    work.append((y, s3))
        return list(self.obs.values())

    def branch(self, node, label, st):
        e = strip_casts(node.expr)
        truth = label[0] == 'T'
        # integer comparisons decidable from the environment
        p = cmp_parts(e)
        if p is not None and is_ref(p[0]) and strip_casts(p[0])['d'] in st.env:
            v = st.env[strip_casts(p[0])['d']]
            if not v.t:
                res = {'==': v.c == p[2], '!=': v.c != p[2], '<': v.c < p[2], '<=': v.c <= p[2], '>': v.c > p[2], '>=': v.c >= p[2]}[p[1]]
                return st if res == truth else None
        # pointers compared with NULL: the ensure result is non-NULL on the continuing path
        if e.get('k') == 'bin' and e['op'] in ('==', '!=') and (is_null_const(e['l']) or is_null_const(e['r'])):
            other = e['l'] if is_null_const(e['r']) else e['r']
            if is_ref(other) and strip_casts(other)['d'] in st.ptr:
                isnull = (e['op'] == '==') == truth
                return None if isnull else st
        key, pol = self.canon(e)
        want = (truth == pol)
        old = st.atoms.get(key)
        if old is not None:
            return st if old == want else None
        st = st.copy()
        st.atoms[key] = want
        return st


def printers_of(u):
    """the functions that print into a printbuffer handed to them: static, with a printbuffer pointer parameter"""
    from .outbuf import _printbuffer_record
    rec = _printbuffer_record(u)
    out = set()
    for f in print_family(u):
        if f.static and f.name not in ('ensure', 'update_offset') and any(rec in u.ty(p['ty'])['s'] and '*' in u.ty(p['ty'])['s'] for p in f.params):
            out.add(f.name)
    return out


def _measured_after(u, name, seen=None):
    """Does some caller run update_offset (strlen from the offset) after a successful return of `name` - directly, or because it
    hands the result on to a caller that does."""
    seen = seen or set()
    if name in seen:
        return False
    seen = seen | {name}
    for g in u.function_list:
        cfg = None
        for c in g.calls():
            if callee_name(c) != name:
                continue
            cfg = cfg or g.cfg()
            nd = cfg.node_of_expr(c['id'])
            if nd is None:
                continue
            after = cfg.reachable(nd.id)
            for m in after:
                root = cfg.nodes[m].decl.get('init') if cfg.nodes[m].kind == 'decl' else getattr(cfg.nodes[m], 'expr', None)
                if root is not None and m != nd.id and any(x.get('k') == 'call' and callee_name(x) == 'update_offset' for x in walk(root)):
                    return True
            if _measured_after(u, g.name, seen):
                return True
    return False


def out23(units, R):
    from .outbuf import _out8_pass
    u = units['cJSON.c']
    printers = printers_of(u) | PRINTERS
    fam = [f for f in print_family(u) if f.name in printers]
    leaves = {}
    for _round in range(6):
        before = dict(leaves)
        _out8_pass(u, print_family(u), {f.name for f in print_family(u)}, leaves, None)
        if leaves == before:
            break
    total = 0
    for fn in fam:
        if not any(callee_name(c) == 'ensure' for c in fn.calls()):
            continue
        se = SymExec(u, fn, R)
        se.printers = printers
        se.leaves_tail = {k: v for k, v in leaves.items() if not k.startswith('requests:')}
        se.measured = _measured_after(u, fn.name)
        for (rule, node, what, ok, detail, key) in se.run():
            R.ob(rule, fn, node, what, ok, detail, key=key + ':' + what[:40])
        total += se.ngrants
        for (si, li) in se.delegated:
            for g in u.function_list:
                for c in g.calls():
                    if callee_name(c) != fn.name or max(si, li) >= len(c['args']):
                        continue
                    src, ln = strip_casts(c['args'][si]), c['args'][li]
                    ok = False
                    why = 'length %s is not "the text and its terminator"' % expr_str(strip_casts(ln))[:40]
                    v = const_val(ln)
                    if src.get('k') == 'str' and v is not None:
                        ok = v == len(src['bytes']) + 1
                        why = 'literal of %d bytes plus terminator, %d copied' % (len(src['bytes']), v)
                    else:
                        l0 = strip_casts(ln)
                        if l0.get('k') == 'bin' and l0['op'] == '+':
                            for (x, y) in ((l0['l'], l0['r']), (l0['r'], l0['l'])):
                                x0 = strip_casts(x)
                                if x0.get('k') == 'call' and callee_name(x0) == 'strlen' and x0['args'] and \
                                        expr_str(strip_casts(x0['args'][0])) == expr_str(src) and const_val(y) == 1:
                                    ok = True
                                    why = 'strlen of the same text plus one'
                    R.ob('OUT3', g, c, 'text handed to %s is copied together with its terminator' % fn.name, ok, why,
                         key='delegated:%s:%s' % (fn.name, expr_str(src)[:30]))
    R.floor('OUT2', 'printing functions with ensure() requests', len([f for f in fam if any(callee_name(c) == 'ensure' for c in f.calls())]), 3)
    R.floor('OUT2', 'write obligations', len([o for o in R.obs if o.rule == 'OUT2']), 15)
