"""SHP: shape analysis of the sibling-list editors by finite instantiation.

The functions that edit a container's child list (append, insert, detach, replace; core and Utils variants) decide what
to do by comparing a handful of pointers - the container's first child, the item, its two neighbours, the first child's
back link - and then store into the link fields of exactly those nodes.  Which branch is taken therefore depends only on
the *aliasing pattern* among {head, item->prev, item, item->next, tail} (and on index < length for the index-based
entry points); lists of length 0..5 with the item at every position realise every such pattern (with five elements and
the item in the middle all five names are distinct nodes, and nothing beyond them is ever stored to).

For each pattern the function's AST is evaluated over an abstract heap made of those nodes - pointers are node names or
NULL, integers are concrete, everything else (strings, numbers) is opaque - following calls into the library's own list
helpers.  The resulting heap is compared with the list model the property states: the child sequence is the expected
one, every `prev` mirrors a `next`, the first child's `prev` designates the last child, a removed node has no links
left, nothing else was touched, and a node handed to cJSON_Delete is not linked to anything that stays.

A condition or store the evaluator cannot decide on these heaps (a read of a field it does not model, a call it does
not know) is ANALYSIS-BROKEN, never a guess.
"""
from ..facts import AnalysisBroken, strip_casts, expr_str, const_val, callee_name, is_null_const, indirect_field, ASSIGN_OPS

LINKS = ('next', 'prev', 'child')
IS_REFERENCE = 256
STRING_IS_CONST = 512
ARRAY, OBJECT, NUMBER = 32, 64, 8


class ShapeViolation(Exception):
    pass


class _Return(Exception):
    def __init__(self, v):
        self.v = v


class Heap(object):
    def __init__(self):
        self.nodes = {}
        self.names = {}
        self.deleted = set()
        self.n = 0

    def new(self, name, **fields):
        self.n += 1
        i = self.n
        f = {'next': None, 'prev': None, 'child': None, 'type': NUMBER, 'valuestring': None, 'valueint': 0,
             'valuedouble': 0, 'string': None}
        f.update(fields)
        self.nodes[i] = f
        self.names[i] = name
        return ('n', i)

    def get(self, ptr, field, where=''):
        if ptr is None:
            raise ShapeViolation('NULL->%s read %s' % (field, where))
        if not (isinstance(ptr, tuple) and ptr[0] == 'n'):
            raise AnalysisBroken('SHP: %s: ->%s of something that is not a node' % (where, field))
        if ptr[1] in self.deleted:
            raise ShapeViolation('%s->%s read after the node was deleted %s' % (self.names[ptr[1]], field, where))
        if field not in self.nodes[ptr[1]]:
            raise AnalysisBroken('SHP: %s: field %s is not modelled' % (where, field))
        return self.nodes[ptr[1]][field]

    def set(self, ptr, field, value, where=''):
        if ptr is None:
            raise ShapeViolation('NULL->%s written %s' % (field, where))
        if not (isinstance(ptr, tuple) and ptr[0] == 'n'):
            raise AnalysisBroken('SHP: %s: ->%s of something that is not a node' % (where, field))
        if ptr[1] in self.deleted:
            raise ShapeViolation('%s->%s written after the node was deleted %s' % (self.names[ptr[1]], field, where))
        self.nodes[ptr[1]][field] = value

    def delete(self, ptr, where=''):
        """cJSON_Delete: the node, everything reachable through next, and the children of non-references"""
        while ptr is not None:
            if ptr[1] in self.deleted:
                raise ShapeViolation('%s deleted twice %s' % (self.names[ptr[1]], where))
            f = self.nodes[ptr[1]]
            nxt = f['next']
            child = f['child']
            ref = f['type'] & IS_REFERENCE if isinstance(f['type'], int) else 0
            self.deleted.add(ptr[1])
            if child is not None and not ref:
                self.delete(child, where)
            ptr = nxt

    def name(self, ptr):
        if ptr is None:
            return 'NULL'
        if isinstance(ptr, tuple) and ptr[0] == 'n':
            return self.names[ptr[1]] + (' (deleted)' if ptr[1] in self.deleted else '')
        return repr(ptr)

    def sequence(self, parent, limit=20):
        """child sequence of parent by next links; raises on cycles / deleted nodes"""
        out = []
        p = self.nodes[parent[1]]['child']
        while p is not None:
            if p[1] in self.deleted:
                raise ShapeViolation('the list of %s reaches %s, which was deleted' % (self.names[parent[1]], self.names[p[1]]))
            if p in out or len(out) > limit:
                raise ShapeViolation('the next chain of %s is cyclic' % self.names[parent[1]])
            out.append(p)
            p = self.nodes[p[1]]['next']
        return out

    def well_formed(self, parent):
        seq = self.sequence(parent)
        if not seq:
            return
        for a, b in zip(seq, seq[1:]):
            if self.nodes[b[1]]['prev'] != a:
                raise ShapeViolation('%s->prev is %s, not its predecessor %s' % (self.name(b), self.name(self.nodes[b[1]]['prev']), self.name(a)))
        if self.nodes[seq[0][1]]['prev'] != seq[-1]:
            raise ShapeViolation('the first child %s has prev = %s, but the last child is %s' % (
                self.name(seq[0]), self.name(self.nodes[seq[0][1]]['prev']), self.name(seq[-1])))


class Interp(object):
    """Evaluates library functions over a Heap.  Integers are concrete, node pointers are names, strings are opaque."""

    def __init__(self, units, heap):
        self.heap = heap
        self.units = units
        self.funcs = {}
        for u in units.values():
            for fn in u.function_list:
                self.funcs.setdefault(fn.name, (u, fn))
        self.steps = 0
        self.depth = 0

    # ---- calls -----------------------------------------------------------------------------------
    def call(self, name, args, where=''):
        if name == 'cJSON_Delete':
            if args[0] is not None:
                self.heap.delete(args[0], where)
            return None
        if name in ('cJSON_free', 'free'):
            return None
        if name == 'cJSON_New_Item':
            return self.heap.new('new%d' % (self.heap.n + 1), type=0)
        if name == 'cJSON_strdup' and args:
            # its contract (OWN/OUT rules look at the body): NULL for NULL, else a copy with the same bytes
            if args[0] is None:
                return None
            if isinstance(args[0], tuple) and args[0][0] == 'str':
                return ('str', args[0][1])
        if name in ('strlen', '__builtin_strlen') and args and isinstance(args[0], tuple) and args[0][0] == 'str':
            return len(args[0][1])
        if name in ('fabs', '__builtin_fabs') and args and isinstance(args[0], (int, float)):
            return abs(float(args[0]))
        if name in ('tolower', 'toupper') and args and isinstance(args[0], int) and not isinstance(args[0], bool):
            # the "C" locale, as everywhere in these rules; other values than those of unsigned char (and EOF) are not defined
            c_ = args[0]
            if not (-1 <= c_ <= 255):
                raise AnalysisBroken('SHP: %s: %s of %d' % (where, name, c_))
            if name == 'tolower':
                return c_ + 32 if 65 <= c_ <= 90 else c_
            return c_ - 32 if 97 <= c_ <= 122 else c_
        if name in ('memcpy', '__builtin_memcpy', '__builtin___memcpy_chk') and len(args) >= 3 and \
                all(isinstance(a_, tuple) and a_[0] == 'n' for a_ in args[:2]):
            # a node copied as a whole over another (sizeof(cJSON) bytes): every field of the destination becomes the source's
            if args[0][1] in self.heap.deleted or args[1][1] in self.heap.deleted:
                raise ShapeViolation('memcpy on a deleted node %s' % where)
            self.heap.nodes[args[0][1]] = dict(self.heap.nodes[args[1][1]])
            return args[0]
        if name in ('memset', '__builtin_memset') and len(args) >= 3 and isinstance(args[0], tuple) and args[0][0] == 'n' and args[1] == 0:
            f0 = self.heap.nodes[args[0][1]]
            for k_ in list(f0):
                f0[k_] = None if k_ in ('next', 'prev', 'child', 'valuestring', 'string') else 0
            return args[0]
        if name in ('compare_strings', 'strcmp', 'case_insensitive_strcmp') and len(args) >= 2 and \
                all(isinstance(a, tuple) and a[0] == 'str' for a in args[:2]):
            # the comparators are TAB20's business; here they are their contract: the sign of the byte-wise comparison
            a, b = args[0][1], args[1][1]
            fold = (name == 'case_insensitive_strcmp') or (name == 'compare_strings' and len(args) > 2 and not self.truthy(args[2]))
            if fold:
                a, b = a.lower(), b.lower()
            return (a > b) - (a < b)
        if name not in self.funcs:
            raise AnalysisBroken('SHP: %s: call of %s is not modelled' % (where, name))
        u, fn = self.funcs[name]
        if len(args) < len(fn.params) and name in getattr(u, 'folded_args', {}) and self.depth == 0:
            # an entry point that has become a wrapper handing constants to the function now standing under its name
            extra = getattr(u, 'folded_args')[name]
            if len(args) + len(extra) == len(fn.params):
                args = list(args) + [const_val(x) for x in extra]
        self.depth += 1
        if self.depth > 12:
            raise AnalysisBroken('SHP: call depth exceeded in %s' % name)
        try:
            return self.run(u, fn, args)
        finally:
            self.depth -= 1

    def run(self, u, fn, args):
        cfg = fn.cfg()
        env = {}
        for p, a in zip(fn.params, args):
            env[p['d']] = a
        frame = {'env': env, 'truth': {}, 'fn': fn, 'u': u}
        nid = cfg.entry.id
        while True:
            self.steps += 1
            if self.steps > 20000:
                raise AnalysisBroken('SHP: evaluation of %s does not finish' % fn.name)
            node = cfg.nodes[nid]
            if nid == cfg.exit.id:
                return None
            succ = cfg.succ[nid]
            if node.kind == 'decl':
                d = node.decl
                if 'init' in d:
                    env[d['d']] = self.ev(d['init'], frame)
                elif u.ty(d['ty'])['c'] == 'record' and u.ty(d['ty'])['s'].split()[-1] == 'cJSON':
                    # a node with automatic storage (a sentinel in front of a list under construction): a node like any other;
                    # it is no member, so a list that still reaches it afterwards fails the membership / link checks
                    tmp = self.heap.new('local %s of %s' % (d['n'], fn.name), type=0)
                    env[d['d']] = ('lrec', tmp)
                else:
                    env[d['d']] = ('uninit',)
            elif node.kind == 'stmt':
                self.ev(node.expr, frame)
            elif node.kind == 'return':
                return self.ev(node.expr, frame) if node.expr is not None else None
            elif node.kind == 'branch':
                t = self.truthy(self.ev(node.expr, frame), fn.where(node.expr))
                if node.expr.get('id') is not None:
                    frame['truth'][node.expr['id']] = t
                nxt = [y for (y, l) in succ if l is not None and l[0] == ('T' if t else 'F')]
                if len(nxt) != 1:
                    raise AnalysisBroken('SHP: branch without a %s edge at %s' % (t, fn.where(node.expr)))
                nid = nxt[0]
                continue
            elif node.kind == 'switch':
                v = self.ev(node.expr, frame)
                nxt = [y for (y, l) in succ if l is not None and l[0] == 'case' and l[2] == v]
                if not nxt:
                    nxt = [y for (y, l) in succ if l is not None and l[0] == 'default']
                nid = nxt[0]
                continue
            if not succ:
                return None
            nid = succ[0][0]

    # ---- values ----------------------------------------------------------------------------------
    def truthy(self, v, where=''):
        if v is None:
            return False
        if isinstance(v, bool):
            return v
        if isinstance(v, (int, float)):
            return v != 0
        if isinstance(v, tuple) and v[0] in ('n', 'str', 'ploc', 'pfld'):
            return True
        raise AnalysisBroken('SHP: %s: condition on a value that is not modelled (%r)' % (where, v))

    def ev(self, e, frame):
        fn = frame['fn']
        e0 = e
        if e.get('null') or strip_casts(e).get('null'):
            return None
        cv = const_val(e)
        if cv is not None:
            # a literal zero converted to a pointer type is NULL
            if cv == 0 and frame['u'].ty(e['ty'])['c'] == 'ptr':
                return None
            return cv
        k = e.get('k')
        if k == 'float':
            return float(e['fval'])
        if k == 'cast':
            v = self.ev(e['e'], frame)
            if isinstance(v, float) and frame['u'].ty(e['ty'])['c'] == 'int':
                v = int(v)
            if isinstance(v, int) and not isinstance(v, bool):
                # an explicit cast converts to its own type ('ty0' when an implicit conversion follows), then to 'ty'
                for tid in ([e['ty0']] if 'ty0' in e else []) + [e['ty']]:
                    t = frame['u'].ty(tid)
                    if t['c'] == 'bool':
                        v = int(v != 0)
                    elif t['c'] == 'int' and t.get('bits'):
                        v &= (1 << t['bits']) - 1
                        if not t.get('unsigned') and v >= (1 << (t['bits'] - 1)):
                            v -= 1 << t['bits']
            return v
        if k == 'ref':
            dk = e.get('dk')
            if dk in ('local', 'param'):
                v = frame['env'].get(e['d'], ('uninit',))
                if v == ('uninit',):
                    raise ShapeViolation('%s read before it is assigned at %s' % (e['n'], fn.where(e)))
                return v
            if dk == 'enumc':
                return e.get('val')
            return ('glob', e['n'])
        if k == 'str':
            return ('str', bytes(e['bytes']))
        if k == 'mem':
            b = self.ev(e['b'], frame)
            if isinstance(b, tuple) and b[0] == 'lrec':
                b = b[1]
            if isinstance(b, tuple) and b[0] == 'row':
                # a row of a constant table: the initialiser at the field's position
                rec = None
                for rr in frame['u'].records.values():
                    if any(f['n'] == e['f'] for f in rr['fields']) and len(rr['fields']) == len(b[1]):
                        rec = rr
                if rec is None:
                    raise AnalysisBroken('SHP: %s: field %s of a table row cannot be located' % (fn.where(e), e['f']))
                pos = [i for i, f in enumerate(rec['fields']) if f['n'] == e['f']][0]
                return self.ev(b[1][pos], frame)
            if isinstance(b, tuple) and b[0] == 'glob':
                return ('glob', b[1] + '.' + e['f'])
            return self.heap.get(b, e['f'], 'at ' + fn.where(e))
        if k == 'idx':
            b = self.ev(e['b'], frame)
            i = self.ev(e['i'], frame)
            if isinstance(b, tuple) and b[0] == 'glob' and isinstance(i, int):
                g = None
                for uu in self.units.values():
                    for gg in uu.globals:
                        if gg['n'] == b[1]:
                            g = (uu, gg)
                if g is None or 'init' not in g[1] or g[1]['init'].get('k') != 'initlist' or 'const' not in g[0].ty(g[1]['ty'])['s']:
                    raise AnalysisBroken('SHP: %s: %s is not a constant table' % (fn.where(e), b[1]))
                rows = g[1]['init']['inits']
                if not (0 <= i < len(rows)):
                    raise ShapeViolation('index %d outside the table %s at %s' % (i, b[1], fn.where(e)))
                r = strip_casts(rows[i])
                if r.get('k') == 'initlist':
                    return ('row', r['inits'])
                return self.ev(rows[i], frame)
            if isinstance(b, tuple) and b[0] == 'str' and isinstance(i, int):
                bs = b[1]
                return bs[i] if 0 <= i < len(bs) else (0 if i == len(bs) else None)
            raise AnalysisBroken('SHP: %s: indexing is not modelled here' % fn.where(e))
        if k == 'un':
            op = e['op']
            if op == '!':
                return int(not self.truthy(self.ev(e['e'], frame), fn.where(e)))
            if op in ('post++', 'post--', 'pre++', 'pre--'):
                old = self.ev(e['e'], frame)
                if not isinstance(old, int):
                    raise AnalysisBroken('SHP: %s: ++/-- on a non-integer' % fn.where(e))
                new = old + (1 if '++' in op else -1)
                self.assign(e['e'], new, frame)
                return old if op.startswith('post') else new
            if op in ('-', '~', '+'):
                v = self.ev(e['e'], frame)
                if isinstance(v, float) and op in ('-', '+'):
                    return -v if op == '-' else v
                if not isinstance(v, int):
                    raise AnalysisBroken('SHP: %s: arithmetic on a non-integer' % fn.where(e))
                return {'-': -v, '~': ~v, '+': v}[op]
            if op == '&':
                inner = strip_casts(e['e'])
                if inner.get('k') == 'ref' and inner.get('dk') not in ('local', 'param'):
                    return ('glob', inner['n'])
                if inner.get('k') == 'ref':
                    cur = frame['env'].get(inner['d'])
                    if isinstance(cur, tuple) and cur[0] == 'lrec':
                        return cur[1]
                    return ('ploc', frame['env'], inner['d'])
                if inner.get('k') == 'mem':
                    return ('pfld', self.ev(inner['b'], frame), inner['f'])
            if op == '*':
                p = self.ev(e['e'], frame)
                if isinstance(p, tuple) and p[0] == 'ploc':
                    return p[1].get(p[2])
                if isinstance(p, tuple) and p[0] == 'pfld':
                    return self.heap.get(p[1], p[2], 'at ' + fn.where(e))
            raise AnalysisBroken('SHP: %s: operator %s is not modelled' % (fn.where(e), op))
        if k == 'bin':
            op = e['op']
            if op in ASSIGN_OPS:
                if op == '=':
                    v = self.ev(e['r'], frame)
                else:
                    l, r = self.ev(e['l'], frame), self.ev(e['r'], frame)
                    if not isinstance(l, int) or not isinstance(r, int):
                        raise AnalysisBroken('SHP: %s: compound assignment on non-integers' % fn.where(e))
                    f_ = {'+=': lambda: l + r, '-=': lambda: l - r, '|=': lambda: l | r, '&=': lambda: l & r, '*=': lambda: l * r,
                          '^=': lambda: l ^ r, '<<=': lambda: l << r, '>>=': lambda: l >> r}.get(op)
                    if f_ is None or (op in ('<<=', '>>=') and not (0 <= r < 64)):
                        raise AnalysisBroken('SHP: %s: operator %s' % (fn.where(e), op))
                    v = f_()
                self.assign(e['l'], v, frame)
                return v
            if op == ',':
                self.ev(e['l'], frame)
                return self.ev(e['r'], frame)
            if op == '&&':
                t = frame['truth'].get(e.get('id'))
                l = self.truthy(self.ev(e['l'], frame), fn.where(e))
                return int(l and self.truthy(self.ev(e['r'], frame), fn.where(e)))
            if op == '||':
                l = self.truthy(self.ev(e['l'], frame), fn.where(e))
                return int(l or self.truthy(self.ev(e['r'], frame), fn.where(e)))
            l, r = self.ev(e['l'], frame), self.ev(e['r'], frame)
            if op in ('==', '!='):
                lp = l if not isinstance(l, bool) else int(l)
                rp = r if not isinstance(r, bool) else int(r)
                # NULL compares equal to the integer 0
                if lp is None and rp == 0 and isinstance(rp, int):
                    rp = None
                if rp is None and lp == 0 and isinstance(lp, int):
                    lp = None
                return int((lp == rp) == (op == '=='))
            if isinstance(l, (int, float)) and isinstance(r, (int, float)):
                if op in ('<', '<=', '>', '>='):
                    return int({'<': l < r, '<=': l <= r, '>': l > r, '>=': l >= r}[op])
                if op in ('/', '%') and r == 0:
                    raise ShapeViolation('division by zero at %s' % fn.where(e))
                if op in ('<<', '>>') and not (0 <= int(r) < 64):
                    raise ShapeViolation('shift by %s at %s' % (r, fn.where(e)))
                return {'+': lambda: l + r, '-': lambda: l - r, '*': lambda: l * r, '&': lambda: int(l) & int(r), '|': lambda: int(l) | int(r),
                        '^': lambda: int(l) ^ int(r), '<<': lambda: int(l) << int(r), '>>': lambda: int(l) >> int(r),
                        '/': lambda: int(l / r) if r else 0, '%': lambda: l - int(l / r) * r if r else 0}[op]()
            raise AnalysisBroken('SHP: %s: %s on values that are not modelled' % (fn.where(e), op))
        if k == 'cond':
            c = self.truthy(self.ev(e['c'], frame), fn.where(e))
            return self.ev(e['t'] if c else e['e'], frame)
        if k == 'call':
            cn = callee_name(e)
            if cn is None:
                f = indirect_field(e)
                if f == 'deallocate':
                    return None
                raise AnalysisBroken('SHP: %s: indirect call' % fn.where(e))
            args = [self.ev(a, frame) for a in e['args']]
            return self.call(cn, args, 'at ' + fn.where(e))
        if k == 'sizeof':
            return e.get('val', 0)
        raise AnalysisBroken('SHP: %s: expression %s is not modelled' % (fn.where(e0), expr_str(e0)[:40]))

    def assign(self, lhs, v, frame):
        fn = frame['fn']
        l = strip_casts(lhs)
        if l.get('k') == 'ref' and l.get('dk') in ('local', 'param'):
            frame['env'][l['d']] = v
            return
        if l.get('k') == 'mem':
            b = self.ev(l['b'], frame)
            if isinstance(b, tuple) and b[0] == 'lrec':
                b = b[1]
            self.heap.set(b, l['f'], v, 'at ' + fn.where(lhs))
            return
        if l.get('k') == 'un' and l['op'] == '*':
            p = self.ev(l['e'], frame)
            if isinstance(p, tuple) and p[0] == 'ploc':
                p[1][p[2]] = v
                return
            if isinstance(p, tuple) and p[0] == 'pfld':
                self.heap.set(p[1], p[2], v, 'at ' + fn.where(lhs))
                return
        raise AnalysisBroken('SHP: %s: store to %s is not modelled' % (fn.where(lhs), expr_str(lhs)[:40]))


# ---- the cases -------------------------------------------------------------------------------------------------------

def _make_list(heap, n, kind=ARRAY):
    parent = heap.new('parent', type=kind)
    elems = [heap.new('e%d' % (i + 1)) for i in range(n)]
    for i, p in enumerate(elems):
        f = heap.nodes[p[1]]
        f['next'] = elems[i + 1] if i + 1 < n else None
        f['prev'] = elems[i - 1] if i > 0 else elems[-1]
    heap.nodes[parent[1]]['child'] = elems[0] if elems else None
    return parent, elems


def _snapshot(heap, skip=()):
    return {i: dict(f) for i, f in heap.nodes.items() if i not in skip}


def _check_untouched(heap, before, allowed, what):
    """no link field of a node outside `allowed` changed"""
    for i, f in before.items():
        if i in allowed or i in heap.deleted:
            continue
        for fld in LINKS + ('type', 'string'):
            if heap.nodes[i][fld] != f[fld]:
                raise ShapeViolation('%s: %s->%s changed from %s to %s' % (what, heap.names[i], fld, heap.name(f[fld]) if fld in LINKS else f[fld],
                                                                          heap.name(heap.nodes[i][fld]) if fld in LINKS else heap.nodes[i][fld]))


def _expect_sequence(heap, parent, want, what):
    got = heap.sequence(parent)
    if got != want:
        raise ShapeViolation('%s: the children are [%s], the list model says [%s]' % (
            what, ', '.join(heap.name(p) for p in got), ', '.join(heap.name(p) for p in want)))
    heap.well_formed(parent)


def _detached(heap, item, what):
    f = heap.nodes[item[1]]
    if f['next'] is not None or f['prev'] is not None:
        raise ShapeViolation('%s: the removed node still has next = %s, prev = %s' % (what, heap.name(f['next']), heap.name(f['prev'])))


def _cases_append(units, fname, via_parent_first=True):
    for n in range(0, 4):
        def run(n=n):
            heap = Heap()
            parent, el = _make_list(heap, n)
            item = heap.new('item')
            it = Interp(units, heap)
            r = it.call(fname, [parent, item])
            what = 'append to a list of %d' % n
            if not it.truthy(r):
                raise ShapeViolation('%s: refused' % what)
            _expect_sequence(heap, parent, el + [item], what)
        yield ('append to %d element(s)' % n, run)


def _max_len():
    import os
    return 8 if os.environ.get('CJSA_TIER') == 'thorough' else 6


def _cases_detach_ptr(units, fname, stray_case=True):
    for n in range(1, _max_len()):
        for pos in range(n):
            def run(n=n, pos=pos):
                heap = Heap()
                parent, el = _make_list(heap, n)
                before = _snapshot(heap)
                it = Interp(units, heap)
                what = 'detach element %d of %d' % (pos + 1, n)
                r = it.call(fname, [parent, el[pos]])
                if r != el[pos]:
                    raise ShapeViolation('%s: returned %s' % (what, heap.name(r)))
                _expect_sequence(heap, parent, el[:pos] + el[pos + 1:], what)
                _detached(heap, el[pos], what)
                _check_untouched(heap, before, {x[1] for x in el} | {parent[1]}, what)
            yield ('detach element %d of %d' % (pos + 1, n), run)

    def stray():
        heap = Heap()
        parent, el = _make_list(heap, 3)
        other = heap.new('stray')
        it = Interp(units, heap)
        r = it.call(fname, [parent, other])
        if r is not None:
            raise ShapeViolation('detach of a node that is not linked anywhere returned %s' % heap.name(r))
        _expect_sequence(heap, parent, el, 'detach of an unlinked node')
    if stray_case:
        yield ('detach a node that is not in the list', stray)


def _cases_detach_index(units, fname, delete=False, unsigned=False):
    for n in range(0, 5):
        for which in range(0 if unsigned else -1, n + 2):
            def run(n=n, which=which):
                heap = Heap()
                parent, el = _make_list(heap, n)
                it = Interp(units, heap)
                what = '%s index %d of %d' % ('delete' if delete else 'detach', which, n)
                r = it.call(fname, [parent, which])
                if 0 <= which < n:
                    if not delete and r != el[which]:
                        raise ShapeViolation('%s: returned %s' % (what, heap.name(r)))
                    if delete:
                        if el[which][1] not in heap.deleted:
                            raise ShapeViolation('%s: the element was not deleted' % what)
                        if len(heap.deleted) != 1:
                            raise ShapeViolation('%s: %d nodes deleted' % (what, len(heap.deleted)))
                    else:
                        _detached(heap, el[which], what)
                    _expect_sequence(heap, parent, el[:which] + el[which + 1:], what)
                else:
                    if not delete and r is not None:
                        raise ShapeViolation('%s: returned %s' % (what, heap.name(r)))
                    _expect_sequence(heap, parent, el, what)
            yield ('%s index %d of %d' % ('delete' if delete else 'detach', which, n), run)


def _cases_insert(units, fname, unsigned=False, beyond_end='append'):
    for n in range(0, 5):
        for which in range(0 if unsigned else -1, n + 3):
            def run(n=n, which=which):
                heap = Heap()
                parent, el = _make_list(heap, n)
                item = heap.new('item')
                it = Interp(units, heap)
                what = 'insert at index %d of %d' % (which, n)
                r = it.call(fname, [parent, which, item])
                if which < 0 or (which > n and beyond_end == 'refuse'):
                    if it.truthy(r):
                        raise ShapeViolation('%s: accepted' % what)
                    _expect_sequence(heap, parent, el, what)
                    return
                if not it.truthy(r):
                    raise ShapeViolation('%s: refused' % what)
                w = min(which, n)
                _expect_sequence(heap, parent, el[:w] + [item] + el[w:], what)
            yield ('insert at index %d of %d' % (which, n), run)


def _cases_replace_ptr(units, fname):
    for n in range(1, _max_len()):
        for pos in range(n):
            def run(n=n, pos=pos):
                heap = Heap()
                parent, el = _make_list(heap, n)
                new = heap.new('replacement')
                it = Interp(units, heap)
                what = 'replace element %d of %d' % (pos + 1, n)
                r = it.call(fname, [parent, el[pos], new])
                if not it.truthy(r):
                    raise ShapeViolation('%s: refused' % what)
                _expect_sequence(heap, parent, el[:pos] + [new] + el[pos + 1:], what)
                if heap.deleted != {el[pos][1]}:
                    raise ShapeViolation('%s: deleted %s, expected exactly the replaced node' % (
                        what, sorted(heap.names[i] for i in heap.deleted)))
            yield ('replace element %d of %d' % (pos + 1, n), run)

    def same():
        heap = Heap()
        parent, el = _make_list(heap, 3)
        it = Interp(units, heap)
        r = it.call(fname, [parent, el[1], el[1]])
        if not it.truthy(r):
            raise ShapeViolation('replace of a node by itself: refused')
        if heap.deleted:
            raise ShapeViolation('replace of a node by itself deleted it')
        _expect_sequence(heap, parent, el, 'replace of a node by itself')
    yield ('replace a node by itself', same)


def _cases_replace_index(units, fname):
    for n in range(0, 5):
        for which in range(-1, n + 1):
            def run(n=n, which=which):
                heap = Heap()
                parent, el = _make_list(heap, n)
                new = heap.new('replacement')
                it = Interp(units, heap)
                what = 'replace index %d of %d' % (which, n)
                r = it.call(fname, [parent, which, new])
                if 0 <= which < n:
                    if not it.truthy(r):
                        raise ShapeViolation('%s: refused' % what)
                    _expect_sequence(heap, parent, el[:which] + [new] + el[which + 1:], what)
                    if heap.deleted != {el[which][1]}:
                        raise ShapeViolation('%s: deleted %s' % (what, sorted(heap.names[i] for i in heap.deleted)))
                else:
                    if it.truthy(r):
                        raise ShapeViolation('%s: accepted' % what)
                    _expect_sequence(heap, parent, el, what)
            yield ('replace index %d of %d' % (which, n), run)


EDITORS = [
    # (unit, function, case generator, what the list model says)
    ('cJSON.c', 'add_item_to_array', _cases_append, 'append'),
    ('cJSON.c', 'cJSON_AddItemToArray', _cases_append, 'append'),
    ('cJSON.c', 'cJSON_DetachItemViaPointer', _cases_detach_ptr, 'remove the given element'),
    ('cJSON.c', 'cJSON_DetachItemFromArray', _cases_detach_index, 'remove the element at an index'),
    ('cJSON.c', 'cJSON_DeleteItemFromArray', lambda units, f: _cases_detach_index(units, f, delete=True), 'delete the element at an index'),
    ('cJSON.c', 'cJSON_InsertItemInArray', _cases_insert, 'insert before an index, append beyond the end'),
    ('cJSON.c', 'cJSON_ReplaceItemViaPointer', _cases_replace_ptr, 'replace the given element and delete it'),
    ('cJSON.c', 'cJSON_ReplaceItemInArray', _cases_replace_index, 'replace the element at an index and delete it'),
    ('cJSON_Utils.c', 'detach_item_from_array', lambda units, f: _cases_detach_index(units, f, unsigned=True),
     'remove the element at an index'),
    ('cJSON_Utils.c', 'insert_item_in_array', lambda units, f: _cases_insert(units, f, unsigned=True, beyond_end='refuse'),
     'insert before an index, append at the end, refuse beyond it'),
]


def _premise(units, fname, seen=None):
    """The small-model argument needs the editor (and what it calls) to store link fields only in nodes it can name: at most
    one link away from a parameter, a local holding an element, or the container's first child; and its loops may walk
    the list but not write links."""
    from ..facts import walk
    seen = seen if seen is not None else set()
    if fname in seen or fname in ('cJSON_Delete', 'cJSON_New_Item', 'cJSON_free'):
        return
    seen.add(fname)
    fn = None
    for u in units.values():
        if fname in u.functions:
            fn = u.functions[fname]
            break
    if fn is None:
        return
    for x in fn.nodes():
        if x.get('k') == 'bin' and x['op'] in ASSIGN_OPS:
            l = strip_casts(x['l'])
            if l.get('k') == 'mem' and l['f'] in LINKS:
                hops = 0
                b = strip_casts(l['b'])
                while b.get('k') == 'mem':
                    hops += 1
                    b = strip_casts(b['b'])
                if hops > 1 or b.get('k') != 'ref':
                    raise AnalysisBroken('SHP1: %s stores a link field %d links away from a named node (%s): the finite family of '
                                         'list shapes does not cover this editor' % (fn.where(x), hops + 1, expr_str(l)[:40]))
        if x.get('k') in ('while', 'for', 'do'):
            for y in walk(x['body']):
                if y.get('k') == 'bin' and y['op'] in ASSIGN_OPS and strip_casts(y['l']).get('k') == 'mem' and strip_casts(y['l'])['f'] in LINKS:
                    raise AnalysisBroken('SHP1: %s: a loop of %s writes link fields: the finite family of list shapes does not '
                                         'cover this editor' % (fn.where(y), fname))
    for c in fn.calls():
        if callee_name(c):
            _premise(units, callee_name(c), seen)


def shp1(units, R, only_unit=None, editors=None):
    n = 0
    for (unit, fname, gen, model) in (editors or EDITORS):
        if only_unit is not None and unit != only_unit:
            continue
        u = units.get(unit)
        if u is None or fname not in u.functions:
            raise AnalysisBroken('SHP1: list editor %s not found in %s' % (fname, unit))
        fn = u.functions[fname]
        _premise(units, fname)
        cases = list(gen(units, fname))
        bad = []
        for (label, run) in cases:
            try:
                run()
            except ShapeViolation as v:
                bad.append((label, str(v)))
        n += 1
        R.ob('SHP1', fn, None, '%s behaves like the list model (%s) on every aliasing pattern of head / neighbours / tail' % (fname, model),
             not bad, '%d list shapes (lengths 0..5, every position / index), result compared with the list model and the link '
             'invariants' % len(cases) if not bad else '%s: %s (%d of %d shapes wrong)' % (bad[0][0], bad[0][1], len(bad), len(cases)),
             key='shape:' + fname)
    R.floor('SHP1', 'list editors evaluated', n, 1)


# ---- SHP2: sorting (bounded) ---------------------------------------------------------------------------------------

def shp2(units, R, fname='sort_object'):
    """sort_object on every object of up to four members with every arrangement of keys (repetitions included) and every
    arrangement of five distinct keys, both settings of the case flag: afterwards the members are the same nodes, in
    non-decreasing key order, with consistent links (every prev mirrors a next, the first member's prev is the last).
    Sorting re-links inside loops and recursion, so unlike SHP1 there is no small-model argument: this is a bounded
    statement about short lists, kept because a forgotten back link shows on lists this short."""
    import itertools
    u = units['cJSON_Utils.c']
    if fname not in u.functions:
        raise AnalysisBroken('SHP2: %s not found' % fname)
    fn = u.functions[fname]
    bad = []
    n_cases = 0
    import os
    thorough = os.environ.get('CJSA_TIER') == 'thorough'
    alphabet = [b'a', b'b', b'c', b'd', b'e', b'f', b'g']
    arrangements = []
    for n in range(0, 6 if thorough else 5):
        arrangements += list(itertools.product(alphabet[:max(n, 1)], repeat=n))
    if thorough:
        # deeper: every arrangement with repetitions up to five members, every order of six and of seven distinct keys
        arrangements += list(itertools.permutations(alphabet[:6], 6)) + list(itertools.permutations(alphabet[:7], 7))
    else:
        arrangements += list(itertools.permutations(alphabet[:5], 5))
    for keys in arrangements:
        for cs in (1, 0):
            n_cases += 1
            heap = Heap()
            parent, el = _make_list(heap, len(keys), kind=OBJECT)
            for p, k in zip(el, keys):
                heap.nodes[p[1]]['string'] = ('str', k)
            it = Interp(units, heap)
            what = 'keys %s' % ','.join(k.decode() for k in keys)
            try:
                it.call(fname, [parent, cs])
                seq = heap.sequence(parent)
                if sorted(x[1] for x in seq) != sorted(x[1] for x in el):
                    raise ShapeViolation('%s: the members afterwards are [%s]: not the same nodes' % (what, ', '.join(heap.name(x) for x in seq)))
                ks = [heap.nodes[x[1]]['string'][1] for x in seq]
                if ks != sorted(ks):
                    raise ShapeViolation('%s: order afterwards %s' % (what, ','.join(k.decode() for k in ks)))
                heap.well_formed(parent)
                if heap.deleted:
                    raise ShapeViolation('a member was deleted')
            except ShapeViolation as v:
                bad.append('%s, case_sensitive=%d: %s' % (what, cs, v))
    R.ob('SHP2', fn, None, '%s leaves the same member nodes, ordered by key, with consistent links (objects of up to %d members)' % (
        fname, 7 if thorough else 5),
         not bad, '%d arrangements of keys x 2 flag values' % (n_cases // 2) if not bad else '%s (%d of %d cases wrong)' % (bad[0], len(bad), n_cases),
         key='sort:' + fname)
    R.floor('SHP2', 'key arrangements sorted', n_cases, 100)


# ---- SHP3: the queries (bounded) ------------------------------------------------------------------------------------

def shp3(units, R, names=None):
    """The read-only queries of cJSON.c against the list model, on every list of up to five elements: the element at an index
    (every index from one below to two beyond the range), the size, and lookup by key - for every arrangement of keys from
    {a, A, b} on objects of up to four members and every name from {a, A, b, c}, both settings of the case flag, the member
    returned is the first one whose key equals the name (exactly / after ASCII case folding) or NULL; nothing is written.
    The walks of these functions are governed by the index and by the keys alone, but they are loops, so like SHP2 this is a
    bounded statement about short lists; it is kept because first-match, off-by-one and NULL-at-the-end mistakes show there."""
    import itertools
    u = units['cJSON.c']
    want = names or ('get_array_item', 'cJSON_GetArrayItem', 'cJSON_GetArraySize', 'get_object_item')
    n_fn = 0
    for fname in want:
        if fname not in u.functions:
            raise AnalysisBroken('SHP3: query %s not found in cJSON.c' % fname)
        fn = u.functions[fname]
        for x in fn.nodes():
            if x.get('k') == 'bin' and x['op'] in ASSIGN_OPS and strip_casts(x['l']).get('k') == 'mem':
                raise AnalysisBroken('SHP3: %s stores through a pointer: not a query' % fn.where(x))
        bad = []
        n_cases = 0
        params = [p['n'] for p in fn.params]
        by_index = len(fn.params) == 2 and u.ty(fn.params[1]['ty'])['c'] == 'int'
        by_key = len(fn.params) >= 2 and u.ty(fn.params[1]['ty'])['c'] == 'ptr'
        signed = by_index and not u.ty(fn.params[1]['ty']).get('unsigned')
        deep = _max_len() > 6          # thorough tier: longer lists, more members
        if by_index:
            for n in range(0, 9 if deep else 6):
                for idx in range(-1 if signed else 0, n + 3):
                    n_cases += 1
                    heap = Heap()
                    parent, el = _make_list(heap, n)
                    before = _snapshot(heap)
                    try:
                        r = Interp(units, heap).call(fname, [parent, idx])
                        exp = el[idx] if 0 <= idx < n else None
                        if r != exp:
                            raise ShapeViolation('returned %s, the model has %s' % (heap.name(r), heap.name(exp)))
                        if _snapshot(heap) != before:
                            raise ShapeViolation('the list was modified')
                    except ShapeViolation as v:
                        bad.append('index %d of %d element(s): %s' % (idx, n, v))
            # no container at all
            n_cases += 1
            try:
                if Interp(units, Heap()).call(fname, [None, 0]) is not None:
                    raise ShapeViolation('an element of no array')
            except ShapeViolation as v:
                bad.append('NULL array: %s' % v)
        elif by_key:
            alphabet = [b'a', b'A', b'b']
            flagged = len(fn.params) >= 3
            for n in range(0, 6 if deep else 5):
                for keys in itertools.product(alphabet, repeat=n):
                    for name in (b'a', b'A', b'b', b'c'):
                        for cs in ((1, 0) if flagged else (1,)):
                            n_cases += 1
                            heap = Heap()
                            parent, el = _make_list(heap, n, kind=OBJECT)
                            for p_, k in zip(el, keys):
                                heap.nodes[p_[1]]['string'] = ('str', k)
                            before = _snapshot(heap)
                            try:
                                r = Interp(units, heap).call(fname, [parent, ('str', name)] + ([cs] if flagged else []))
                                exp = None
                                for p_, k in zip(el, keys):
                                    if (k == name) if cs else (k.lower() == name.lower()):
                                        exp = p_
                                        break
                                if r != exp:
                                    raise ShapeViolation('returned %s, the first match is %s' % (heap.name(r), heap.name(exp)))
                                if _snapshot(heap) != before:
                                    raise ShapeViolation('the object was modified')
                            except ShapeViolation as v:
                                bad.append('keys %s, name %s, case_sensitive=%d: %s' % (','.join(k.decode() for k in keys), name.decode(), cs, v))
        else:
            for n in range(0, 9 if deep else 6):
                n_cases += 1
                heap = Heap()
                parent, el = _make_list(heap, n)
                before = _snapshot(heap)
                try:
                    r = Interp(units, heap).call(fname, [parent])
                    if r != n:
                        raise ShapeViolation('returned %r' % (r,))
                    if _snapshot(heap) != before:
                        raise ShapeViolation('the list was modified')
                except ShapeViolation as v:
                    bad.append('%d element(s): %s' % (n, v))
            n_cases += 1
            try:
                if Interp(units, Heap()).call(fname, [None]) != 0:
                    raise ShapeViolation('a size of no array')
            except ShapeViolation as v:
                bad.append('NULL array: %s' % v)
        n_fn += 1
        R.ob('SHP3', fn, None, '%s answers like the list model on short lists' % fname, not bad,
             '%d cases' % n_cases if not bad else '%s (%d of %d cases wrong)' % (bad[0], len(bad), n_cases), key='query:' + fname)
    R.floor('SHP3', 'queries evaluated', n_fn, 1)


# ---- SHP4: the duplicator over every kind of node (bounded) -----------------------------------------------------------------------

def shp4(units, R, fname='cJSON_Duplicate'):
    """cJSON_Duplicate evaluated over abstract heaps: one node of every kind (the eight kinds, with and without the reference and the
    constant-key bit, with the payload that kind carries - text for strings and raw nodes, the two number views), and arrays /
    objects of up to three children of mixed kinds one level deep, with and without recursion.  The copy is a different node with
    the same kind, the same number views, the same key and - whatever the kind - the same text; it never is a reference; with
    recursion it has as many children as the source, copies of them in the same order, with well-formed links, none of them a
    node of the source; without recursion it has none.  What is shared and what is owned is TAB14's question, allocation failures
    are OWN2's; this is about a payload being left out for some kind of node.  A bounded statement (one level, three children)."""
    u = units['cJSON.c']
    if fname not in u.functions:
        raise AnalysisBroken('SHP4: %s not found in cJSON.c' % fname)
    fn = u.functions[fname]
    KINDS = {1: 'false', 2: 'true', 4: 'null', 8: 'number', 16: 'string', 32: 'array', 64: 'object', 128: 'raw'}
    bad = []
    n_cases = 0

    def mk(heap, name, kind, flags=0, key=b'k'):
        return heap.new(name, type=kind | flags, valuestring=('str', b'text of ' + name.encode()) if kind in (16, 128) else None,
                        valueint=7 if kind == 8 else 0, valuedouble=7.5 if kind == 8 else 0, string=('str', key) if key is not None else None)

    def same_payload(heap, a, b, what):
        fa, fb = heap.nodes[a[1]], heap.nodes[b[1]]
        if a == b:
            raise ShapeViolation('%s: the copy is the source node itself' % what)
        if (fb['type'] & 0xFF) != (fa['type'] & 0xFF):
            raise ShapeViolation('%s: kind %s copied as type %s' % (what, KINDS.get(fa['type'] & 0xFF), fb['type']))
        if fb['type'] & IS_REFERENCE:
            raise ShapeViolation('%s: the copy is marked as a reference' % what)
        for f in ('valuestring', 'valueint', 'valuedouble', 'string'):
            if fa[f] != fb[f]:
                raise ShapeViolation('%s: %s of the copy is %r, the source has %r' % (what, f, fb[f], fa[f]))

    for kind in sorted(KINDS):
        for flags in (0, IS_REFERENCE, STRING_IS_CONST):
            for recurse in (1, 0):
                n_cases += 1
                heap = Heap()
                item = mk(heap, 'item', kind, flags)
                what = 'a %s node%s, recurse=%d' % (KINDS[kind], {0: '', IS_REFERENCE: ' (reference)', STRING_IS_CONST: ' (constant key)'}[flags], recurse)
                try:
                    r = Interp(units, heap).call(fname, [item, recurse])
                    if r is None:
                        raise ShapeViolation('%s: no copy' % what)
                    same_payload(heap, item, r, what)
                    if heap.nodes[r[1]]['next'] is not None or heap.nodes[r[1]]['prev'] is not None:
                        raise ShapeViolation('%s: the copy has sibling links' % what)
                    if heap.nodes[r[1]]['child'] is not None:
                        raise ShapeViolation('%s: the copy has children' % what)
                except ShapeViolation as v:
                    bad.append(str(v))
    import itertools
    for parent_kind in (32, 64):
        for nkids in range(1, 5 if _max_len() > 6 else 4):
            for kinds in itertools.product((8, 16, 128, 2), repeat=nkids):
                for recurse in (1, 0):
                    n_cases += 1
                    heap = Heap()
                    parent, el = _make_list(heap, nkids, kind=parent_kind)
                    heap.nodes[parent[1]]['string'] = ('str', b'p')
                    for i, (p_, k_) in enumerate(zip(el, kinds)):
                        f = heap.nodes[p_[1]]
                        f['type'] = k_
                        f['valuestring'] = ('str', b'text %d' % i) if k_ in (16, 128) else None
                        f['valueint'], f['valuedouble'] = (i, i + 0.5) if k_ == 8 else (0, 0)
                        f['string'] = ('str', b'k%d' % i) if parent_kind == 64 else None
                    before = _snapshot(heap)
                    what = '%s of %s, recurse=%d' % (KINDS[parent_kind], '/'.join(KINDS[k_] for k_ in kinds), recurse)
                    try:
                        r = Interp(units, heap).call(fname, [parent, recurse])
                        if r is None:
                            raise ShapeViolation('%s: no copy' % what)
                        same_payload(heap, parent, r, what)
                        seq = heap.sequence(r)
                        if not recurse:
                            if seq:
                                raise ShapeViolation('%s: children copied without recursion' % what)
                        else:
                            if len(seq) != nkids:
                                raise ShapeViolation('%s: the copy has %d children' % (what, len(seq)))
                            for a_, b_ in zip(el, seq):
                                same_payload(heap, a_, b_, what)
                                if b_ in el:
                                    raise ShapeViolation('%s: a child of the source is linked into the copy' % what)
                            heap.well_formed(r)
                        if {i: f for i, f in _snapshot(heap).items() if i in before} != before:
                            raise ShapeViolation('%s: the source was modified' % what)
                    except ShapeViolation as v:
                        bad.append(str(v))
    R.ob('SHP4', fn, None, '%s copies every kind of node with its whole payload' % fname, not bad,
         '%d cases' % n_cases if not bad else '%s (%d of %d cases wrong)' % (bad[0], len(bad), n_cases), key='dup:' + fname)
    R.floor('SHP4', 'duplication cases evaluated', n_cases, 40)


# ---- SHP5: the comparison over short trees (bounded) ------------------------------------------------------------------------------

def shp5(units, R, fname='cJSON_Compare'):
    """cJSON_Compare evaluated over abstract heaps against the definition in the property: same kind; equal booleans / null; numbers by
    compare_double; byte-equal text; arrays element by element in order, with the same length; objects with the same key set (exact
    or ASCII-case-folded as the flag says) and equal values under each key whatever the order.  Every pair out of a family of short
    trees - scalars of every kind, arrays of up to three scalars, objects of up to two members with keys from {a, A, b} - both
    flag values, both argument orders; NULL arguments and invalid nodes compare unequal; the arguments are not modified.
    Bounded (one level); the structural clauses of C12S are about every path."""
    import itertools
    u = units['cJSON.c']
    if fname not in u.functions:
        raise AnalysisBroken('SHP5: %s not found' % fname)
    fn = u.functions[fname]
    scal = [(1, None), (2, None), (4, None), (8, 1.0), (8, 2.0), (16, b'x'), (16, b'X'), (128, b'x'),
            (8 | IS_REFERENCE, 1.0), (8 | IS_REFERENCE, 2.0), (16 | IS_REFERENCE, b'x'), (16 | IS_REFERENCE, b'y'), (2 | STRING_IS_CONST, None)]

    def build(heap, spec, name):
        kind = spec[0]
        if kind in (32, 64):
            node = heap.new(name, type=kind)
            kids = []
            for i, item in enumerate(spec[1]):
                key, sub = item if kind == 64 else (None, item)
                kid = build(heap, sub, '%s.%d' % (name, i))
                heap.nodes[kid[1]]['string'] = ('str', key) if key is not None else None
                kids.append(kid)
            for i, kid in enumerate(kids):
                f = heap.nodes[kid[1]]
                f['next'] = kids[i + 1] if i + 1 < len(kids) else None
                f['prev'] = kids[i - 1] if i > 0 else kids[-1]
            heap.nodes[node[1]]['child'] = kids[0] if kids else None
            return node
        base = kind & 0xFF
        return heap.new(name, type=kind, valuestring=('str', spec[1]) if base in (16, 128) else None,
                        valuedouble=spec[1] if base == 8 else 0, valueint=int(spec[1]) if base == 8 else 0)

    def equal(x, y, cs):
        # the ownership flags (reference, constant key) take no part
        x = (x[0] & 0xFF,) + tuple(x[1:])
        y = (y[0] & 0xFF,) + tuple(y[1:])
        if x[0] != y[0]:
            return False
        if x[0] in (1, 2, 4):
            return True
        if x[0] in (8, 16, 128):
            return x[1] == y[1]
        if x[0] == 32:
            return len(x[1]) == len(y[1]) and all(equal(p_, q_, cs) for p_, q_ in zip(x[1], y[1]))
        fold = (lambda k: k) if cs else (lambda k: k.lower())

        def covered(src, dst):
            for (k, v) in src:
                m = [v2 for (k2, v2) in dst if fold(k2) == fold(k)]
                if not m or not equal(v, m[0], cs):       # the library looks the key up and takes the first match
                    return False
            return True
        return covered(x[1], y[1]) and covered(y[1], x[1])
    def folded_clash(t):
        if t[0] == 64:
            ks = [k.lower() for (k, _v) in t[1]]
            return len(set(ks)) != len(ks) or any(folded_clash(v) for (_k, v) in t[1])
        if t[0] == 32:
            return any(folded_clash(v) for v in t[1])
        return False
    small = [(8, 1.0), (16, b'x'), (2, None)]
    deep = _max_len() > 6              # thorough tier: arrays of three, objects of three members
    trees = list(scal)
    for n in range(0, 4 if deep else 3):
        trees += [(32, combo) for combo in itertools.product(small, repeat=n)]
    trees.append((32, ((8, 1.0), (16, b'x'), (2, None))))
    trees.append((32, ((8, 1.0), (16, b'x'), (1, None))))
    keys = [b'a', b'A', b'b']
    for n in range(0, 4 if deep else 3):
        for ks in itertools.permutations(keys, n):
            for vals in itertools.product(small[:2], repeat=n):
                trees.append((64, tuple(zip(ks, vals))))
    # one more level: an object inside an array / inside an object, keys differing in case only
    inner = [(64, ((b'a', (8, 1.0)),)), (64, ((b'A', (8, 1.0)),)), (64, ((b'a', (8, 2.0)),))]
    trees += [(32, (o_,)) for o_ in inner] + [(64, ((b'k', o_),)) for o_ in inner] + [(32, ((8, 1.0), o_)) for o_ in inner[:2]]
    bad = []
    n_cases = 0
    for x in trees:
        for y in trees:
            if x[0] in (32, 64) and y[0] in (32, 64) and x[0] == y[0] and len(x[1]) + len(y[1]) > (6 if deep else 4):
                continue
            for cs in (1, 0):
                if not cs and (folded_clash(x) or folded_clash(y)):
                    # the property speaks of objects whose keys are distinct - after case folding when compared without regard to
                    # case; what the lookups do with keys that fall together is C06's business (SHP3)
                    continue
                n_cases += 1
                heap = Heap()
                a, b = build(heap, x, 'a'), build(heap, y, 'b')
                before = _snapshot(heap)
                try:
                    r = Interp(units, heap).call(fname, [a, b, cs])
                    want = equal(x, y, cs)
                    if bool(r) != want:
                        raise ShapeViolation('compared %s, by definition they are %s' % ('equal' if r else 'unequal', 'equal' if want else 'unequal'))
                    if _snapshot(heap) != before:
                        raise ShapeViolation('an argument was modified')
                except ShapeViolation as v:
                    bad.append('%r against %r, case_sensitive=%d: %s' % (x, y, cs, v))
    # NULL arguments, invalid nodes, a node against itself
    for (what, mk) in (('NULL against a node', lambda h: (None, h.new('b', type=8))), ('a node against NULL', lambda h: (h.new('a', type=8), None)),
                       ('invalid nodes', lambda h: (h.new('a', type=0), h.new('b', type=0)))):
        n_cases += 1
        heap = Heap()
        a, b = mk(heap)
        try:
            if Interp(units, heap).call(fname, [a, b, 1]):
                raise ShapeViolation('compared equal')
        except ShapeViolation as v:
            bad.append('%s: %s' % (what, v))
    R.ob('SHP5', fn, None, '%s agrees with the definition of equality on short trees' % fname, not bad,
         '%d pairs x flag values' % n_cases if not bad else '%s (%d of %d cases wrong)' % (bad[0][:300], len(bad), n_cases), key='compare:' + fname)
    R.floor('SHP5', 'comparisons evaluated', n_cases, 500)
