"""Runs the exporter plugin (and, for the IR cross-check, clang -emit-llvm) on /repo's
current working tree.  Nothing under /repo is executed."""
import json
import os
import re
import shutil
import subprocess
import tempfile
import atexit

from .facts import Unit, AnalysisBroken

VERIF = os.path.dirname(os.path.dirname(os.path.abspath(__file__)))
REPO = os.environ.get('CJSA_REPO', '/repo')
PLUGIN = os.path.join(VERIF, 'build', 'cjsa_export.so')
PLUGIN_SRC = os.path.join(VERIF, 'engine', 'cjsa_export.cc')

UNITS = ['cJSON.c', 'cJSON_Utils.c']

# Define sets of the two build systems (cross-checked against their text by check_build_config)
CONFIGS = {
    # CMake baseline: ENABLE_LOCALES=ON, shared library with visibility attributes
    'cmake': ['-DENABLE_LOCALES', '-DCJSON_API_VISIBILITY', '-DCJSON_EXPORT_SYMBOLS'],
    # Makefile build: no defines at all
    'make': [],
    # nesting-limit variants: the recursion gate must not depend on the value
    'limit1': ['-DENABLE_LOCALES', '-DCJSON_NESTING_LIMIT=1', '-DCJSON_CIRCULAR_LIMIT=1'],
    'limitbig': ['-DENABLE_LOCALES', '-DCJSON_NESTING_LIMIT=100000', '-DCJSON_CIRCULAR_LIMIT=100000'],
}
BASE_FLAGS = ['-std=c89', '-fsyntax-only', '-w']

_scratch = None


def scratch():
    global _scratch
    if _scratch is None:
        _scratch = tempfile.mkdtemp(prefix='cjsa_')
        atexit.register(lambda: shutil.rmtree(_scratch, ignore_errors=True))
    return _scratch


def ensure_plugin():
    if os.path.exists(PLUGIN) and os.path.getmtime(PLUGIN) >= os.path.getmtime(PLUGIN_SRC):
        return
    os.makedirs(os.path.dirname(PLUGIN), exist_ok=True)
    cxxflags = subprocess.check_output(['llvm-config-14', '--cxxflags'], text=True).split()
    cmd = ['clang++'] + cxxflags + ['-fno-rtti', '-fPIC', '-shared', PLUGIN_SRC, '-o', PLUGIN]
    r = subprocess.run(cmd, stdout=subprocess.PIPE, stderr=subprocess.STDOUT, text=True)
    if r.returncode != 0:
        raise AnalysisBroken('cannot build exporter plugin:\n' + r.stdout[-2000:])


def export(src, defines, out, include=None, std='-std=c89'):
    ensure_plugin()
    cmd = ['clang', std, '-fsyntax-only', '-w'] + list(defines)
    if include:
        cmd += ['-I', include]
    cmd += ['-fplugin=' + PLUGIN, '-Xclang', '-plugin', '-Xclang', 'cjsa',
            '-Xclang', '-plugin-arg-cjsa', '-Xclang', 'out=' + out, src]
    r = subprocess.run(cmd, stdout=subprocess.PIPE, stderr=subprocess.STDOUT, text=True)
    if r.returncode != 0 or not os.path.exists(out):
        raise AnalysisBroken('exporter failed on %s (%s):\n%s' % (src, ' '.join(defines), r.stdout[-3000:]))
    return out


_unit_cache = {}


def load_units(config='cmake', extra_defines=()):
    """Returns {'cJSON.c': Unit, 'cJSON_Utils.c': Unit} for /repo's working tree."""
    key = (config, tuple(extra_defines))
    if key in _unit_cache:
        return _unit_cache[key]
    out = {}
    for u in UNITS:
        src = os.path.join(REPO, u)
        if not os.path.exists(src):
            raise AnalysisBroken('unit %s missing' % src)
        dst = os.path.join(scratch(), '%s.%s.%d.json' % (u, config, len(_unit_cache)))
        export(src, CONFIGS[config] + list(extra_defines), dst, include=REPO)
        out[u] = Unit(dst, label='%s[%s]' % (u, config))
        if not os.environ.get('CJSA_NO_FOLD'):
            # anchors that were renamed or whose body moved into a helper of their own are found again (cjsa/specialize.py)
            from .specialize import fold_delegations
            out[u] = fold_delegations(out[u], u)
    _unit_cache[key] = out
    return out


_known = None


def known_functions():
    global _known
    if _known is None:
        with open(os.path.join(os.path.dirname(os.path.abspath(__file__)), 'known_functions.json')) as fh:
            _known = json.load(fh)
    return _known


def load_fixture(path, defines=()):
    dst = os.path.join(scratch(), 'fx_' + os.path.basename(path) + '.json')
    export(path, list(defines), dst, include=REPO, std='-std=c99')
    return Unit(dst, label=os.path.basename(path))


_ir_cache = {}


def load_ir(config='cmake'):
    """LLVM IR text of both units (not optimised)."""
    if config in _ir_cache:
        return _ir_cache[config]
    out = {}
    for u in UNITS:
        src = os.path.join(REPO, u)
        dst = os.path.join(scratch(), '%s.%s.ll' % (u, config))
        cmd = ['clang', '-std=c89', '-w', '-O0', '-Xclang', '-disable-O0-optnone', '-S', '-emit-llvm',
               '-I', REPO] + CONFIGS[config] + [src, '-o', dst]
        r = subprocess.run(cmd, stdout=subprocess.PIPE, stderr=subprocess.STDOUT, text=True)
        if r.returncode != 0:
            raise AnalysisBroken('IR emission failed for %s:\n%s' % (u, r.stdout[-2000:]))
        with open(dst) as fh:
            out[u] = fh.read()
    _ir_cache[config] = out
    return out


def check_build_config():
    """The hard-wired define sets must match what the two build systems say.
    Returns a list of facts (strings) for the evidence; raises AnalysisBroken on mismatch."""
    facts = []
    cm = open(os.path.join(REPO, 'CMakeLists.txt')).read()
    m = re.search(r'option\(\s*ENABLE_LOCALES\s+"[^"]*"\s+(ON|OFF)\s*\)', cm)
    if not m:
        raise AnalysisBroken('CMakeLists.txt: option(ENABLE_LOCALES ...) not found')
    if m.group(1) != 'ON':
        raise AnalysisBroken('CMakeLists.txt: ENABLE_LOCALES default is %s, configurations assume ON' % m.group(1))
    if not re.search(r'add_definitions\(\s*-DENABLE_LOCALES\s*\)', cm):
        raise AnalysisBroken('CMakeLists.txt: add_definitions(-DENABLE_LOCALES) not found')
    facts.append('CMakeLists.txt: ENABLE_LOCALES default ON -> -DENABLE_LOCALES')
    defs = set(re.findall(r'-D([A-Za-z_0-9]+)', cm))
    known = {'ENABLE_LOCALES', 'CJSON_EXPORT_SYMBOLS', 'CJSON_API_VISIBILITY', 'CJSON_HIDE_SYMBOLS'}
    extra = {d for d in defs if not d.startswith('CMAKE') and not d.startswith('ENABLE_') and d not in known
             and not d.startswith('BUILD_') and d not in ('Werror',)}
    facts.append('CMakeLists.txt -D names: %s' % sorted(defs))
    mk = open(os.path.join(REPO, 'Makefile')).read()
    mdefs = set(re.findall(r'(?<![\w-])-D([A-Za-z_0-9]+)', mk))
    facts.append('Makefile -D names: %s' % sorted(mdefs))
    if 'ENABLE_LOCALES' in mdefs:
        raise AnalysisBroken('Makefile now defines ENABLE_LOCALES; configuration table out of date')
    return facts, sorted(extra)


def compile_db_check():
    """thorough tier: regenerate the compilation database with cmake into scratch and compare
    the defines of the two library units with CONFIGS['cmake']."""
    import json
    bdir = os.path.join(scratch(), 'cmake_db')
    os.makedirs(bdir, exist_ok=True)
    r = subprocess.run(['cmake', '-S', REPO, '-B', bdir, '-G', 'Ninja', '-DENABLE_CJSON_UTILS=On',
                        '-DCMAKE_EXPORT_COMPILE_COMMANDS=ON'],
                       stdout=subprocess.PIPE, stderr=subprocess.STDOUT, text=True)
    db = os.path.join(bdir, 'compile_commands.json')
    if r.returncode != 0 or not os.path.exists(db):
        raise AnalysisBroken('cmake could not generate a compilation database:\n' + r.stdout[-1500:])
    entries = json.load(open(db))
    want = set(d[2:] for d in CONFIGS['cmake'])
    facts = []
    seen = 0
    for e in entries:
        base = os.path.basename(e['file'])
        if base in UNITS and os.path.dirname(e['file']) == REPO:
            cmd = e.get('command') or ' '.join(e.get('arguments', []))
            defs = set(re.findall(r'(?<![\w-])-D([A-Za-z_0-9]+)', cmd))
            target_defs = {d for d in defs if not d.endswith('_EXPORTS')}
            seen += 1
            if target_defs != want:
                raise AnalysisBroken('compile database defines for %s are %s, analysis assumes %s'
                                     % (base, sorted(target_defs), sorted(want)))
            if '-std=c89' not in cmd:
                raise AnalysisBroken('compile database no longer uses -std=c89 for %s' % base)
            facts.append('%s: %s -std=c89' % (base, sorted(target_defs)))
    shutil.rmtree(bdir, ignore_errors=True)
    if seen < 2:
        raise AnalysisBroken('compile database lists %d library units, expected >= 2' % seen)
    return facts
